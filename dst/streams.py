"""Helpers shared by the stream-facing properties (C08, C12, C19, C01)."""

STREAM_EIO = -1000000

SCHEME_PRELUDE = r"""
(define (open-sim-input name)
  (if (equal? (sim-stream-kind name) "custom")
      (make-custom-input-port (lambda (str start end) (sim-custom-read name str start end)))
      (sim-open-stream name)))
(define (open-sim-output name)
  (if (equal? (sim-stream-kind name) "custom")
      (make-custom-output-port (lambda (str start end) (sim-custom-write name str start end)))
      (sim-open-stream name)))
(define (open-sim-binary-input name)
  (if (equal? (sim-stream-kind name) "custom")
      (make-custom-binary-input-port (lambda (bv start end) (sim-custom-read name bv start end)))
      (sim-open-binary-stream name)))
(define (open-sim-binary-output name)
  (if (equal? (sim-stream-kind name) "custom")
      (make-custom-binary-output-port (lambda (bv start end) (sim-custom-write name bv start end)))
      (sim-open-binary-stream name)))
(define (slurp-chars p) (let loop ((c (read-char p)) (acc '())) (if (eof-object? c) (list->string (reverse acc)) (loop (read-char p) (cons c acc)))))
(define (slurp-peek p) (let loop ((acc '())) (let ((c (peek-char p))) (if (eof-object? c) (list->string (reverse acc)) (let ((d (read-char p))) (if (eqv? c d) (loop (cons d acc)) (list 'peek-read-disagree c d)))))))
(define (slurp-strings p n) (let loop ((acc '())) (let ((s (read-string n p))) (if (eof-object? s) (apply string-append (reverse acc)) (loop (cons s acc))))))
(define (slurp-lines p) (let loop ((acc '())) (let ((l (read-line p))) (if (eof-object? l) (if (null? acc) "" (let join ((r (cdr acc)) (out (car acc))) (if (null? r) out (join (cdr r) (string-append (car r) "\n" out))))) (loop (cons l acc))))))
"""


def gen_chunks(rng, kind, direction, size, allow_block=True):
    """chunk tape for a stream of roughly `size` bytes"""
    if kind == "fd" and direction == "out" and not rng.chance(1, 2):
        # half of the descriptor sinks run without back-pressure (the other half get short / would-block writes; findings F9 and
        # F31 lived there until they were repaired)
        return []
    mode = rng.weighted([("ones", 2), ("small", 4), ("mixed", 4), ("default", 2)])
    n = rng.range(0, min(400, max(4, size * 2)))
    tape = []
    for _ in range(n):
        if mode == "ones":
            e = 1
        elif mode == "small":
            e = rng.range(1, 4)
        elif mode == "mixed":
            e = rng.choice([1, 1, 2, 3, 7, 64, 0, 0])
        else:
            e = 0
        if kind == "fd" and allow_block and rng.chance(1, 6):
            tape.append(-rng.range(1, 40))
        tape.append(e)
    return tape


def stream(kind, direction, data=b"", chunks=()):
    return {"kind": kind, "dir": direction, "data": data.hex(), "chunks": list(chunks)}
