"""Determinism self-test: every case twice on warm servers with 16 workers, once more with 3 workers in fresh
template processes; the (verdict classes, trace) pairs must agree pairwise."""
import sys
import time

from . import build
from .common import Rng, run_seed
from .pool import Pool


def _run(prop, cases, workers):
    pool = Pool(prop.CONFIGS, workers)
    try:
        outs = pool.map(cases, fn=lambda case, run_one: prop.execute(case, run_one))
    finally:
        pool.close()
    res = []
    for oc in outs:
        if oc is None or isinstance(oc, dict):
            res.append(("infra", repr(oc)[:80]))
        elif oc.infra:
            res.append(("infra", oc.infra))
        else:
            res.append((tuple(sorted(v.cls for v in oc.verdicts)), oc.trace))
    return res


def determinism(prop, seed, ncases):
    variants = sorted(set(c["variant"] for c in prop.CONFIGS.values()))
    build.build_all(variants)
    t0 = time.time()
    cases = []
    for i in range(ncases):
        rs = run_seed(seed, prop.ID, i)
        cases.append(prop.generate(Rng(rs), "quick", i, rs))
    a = _run(prop, cases, 16)
    b = _run(prop, cases, 16)
    c = _run(prop, cases, 3)
    bad = 0
    for i, (x, y, z) in enumerate(zip(a, b, c)):
        if not (x == y == z):
            bad += 1
            if bad <= 10:
                print("DIVERGED case %d (%s): %r | %r | %r" % (i, cases[i].get("meta", {}).get("family"), x, y, z))
    print("%s determinism: %d cases x 3 executions (16/16/3 workers), %d diverged, %.1fs" % (prop.ID, ncases, bad, time.time() - t0))
    return 0 if bad == 0 else 2


if __name__ == "__main__":
    sys.exit(0)
