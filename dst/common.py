"""Shared helpers: PRNG, hashing, paths."""
import hashlib
import json
import os

VERIF = os.path.dirname(os.path.dirname(os.path.abspath(__file__)))
REPO = os.environ.get("VERIF_REPO", "/repo")
BUILD = os.environ.get("VERIF_BUILD", os.path.join(VERIF, "build"))
EVIDENCE = os.path.join(VERIF, "evidence")
REPLAYS = os.path.join(VERIF, "replays")
WORK = os.path.join(VERIF, "work")

M64 = (1 << 64) - 1


def splitmix64(x):
    x = (x + 0x9E3779B97F4A7C15) & M64
    z = x
    z = ((z ^ (z >> 30)) * 0xBF58476D1CE4E5B9) & M64
    z = ((z ^ (z >> 27)) * 0x94D049BB133111EB) & M64
    return z ^ (z >> 31)


def strhash(s):
    return int.from_bytes(hashlib.sha256(s.encode()).digest()[:8], "big")


class Rng:
    """xoshiro256** seeded through splitmix64: the only entropy of a run."""

    def __init__(self, seed):
        s = seed & M64
        self.s = []
        for _ in range(4):
            s = (s + 0x9E3779B97F4A7C15) & M64
            z = s
            z = ((z ^ (z >> 30)) * 0xBF58476D1CE4E5B9) & M64
            z = ((z ^ (z >> 27)) * 0x94D049BB133111EB) & M64
            self.s.append(z ^ (z >> 31))

    @staticmethod
    def _rotl(x, k):
        return ((x << k) | (x >> (64 - k))) & M64

    def next(self):
        s = self.s
        r = (self._rotl((s[1] * 5) & M64, 7) * 9) & M64
        t = (s[1] << 17) & M64
        s[2] ^= s[0]
        s[3] ^= s[1]
        s[1] ^= s[2]
        s[0] ^= s[3]
        s[2] ^= t
        s[3] = self._rotl(s[3], 45)
        return r

    def below(self, n):
        return self.next() % n if n > 0 else 0

    def range(self, lo, hi):
        """inclusive"""
        return lo + self.below(hi - lo + 1)

    def chance(self, num, den):
        return self.below(den) < num

    def choice(self, seq):
        return seq[self.below(len(seq))]

    def weighted(self, pairs):
        total = sum(w for _, w in pairs)
        x = self.below(total)
        for v, w in pairs:
            if x < w:
                return v
            x -= w
        return pairs[-1][0]

    def shuffle(self, lst):
        for i in range(len(lst) - 1, 0, -1):
            j = self.below(i + 1)
            lst[i], lst[j] = lst[j], lst[i]
        return lst

    def sample(self, seq, k):
        lst = list(seq)
        self.shuffle(lst)
        return lst[:k]

    def fork(self, tag):
        return Rng(splitmix64(self.next() ^ strhash(str(tag))))


def run_seed(base_seed, prop, index):
    return splitmix64((base_seed & M64) ^ strhash(prop) ^ ((index * 0x9E3779B97F4A7C15) & M64))


def canon(obj):
    return json.dumps(obj, sort_keys=True, separators=(",", ":"))


def plan_hash(plan):
    return hashlib.sha256(canon(plan).encode()).hexdigest()[:16]


def latin1_bytes(s):
    """chibisim writes raw bytes as latin-1 code points."""
    return s.encode("latin-1", "replace")


def scm_str(s):
    """Scheme string literal for a Python str (code points)."""
    out = ['"']
    for ch in s:
        o = ord(ch)
        if ch == '"':
            out.append('\\"')
        elif ch == "\\":
            out.append("\\\\")
        elif ch == "\n":
            out.append("\\n")
        elif ch == "\t":
            out.append("\\t")
        elif o < 32 or o == 127 or o > 126:
            out.append("\\x%x;" % o)
        else:
            out.append(ch)
    out.append('"')
    return "".join(out)
