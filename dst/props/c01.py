"""C01 -- evaluating any program never corrupts memory; errors stay contained (fault-surface part)."""
import copy

from .. import streams as st
from ..common import scm_str
from ..engine import Outcome, Verdict, crash_verdicts, infra_problem, shrink_list

ID = "C01"
RULE = ("case = session of 8-40 top-level forms evaluated one after another in one context: well-typed forms, hostile calls (procedures of "
        "(scheme base/char/write/read/cxr/lazy/inexact/complex) and data-taking VM primitives applied -- directly, through apply with a spread list of up to 8 elements, as first-class values, through map -- to 0-4 arguments drawn from a type x "
        "boundary-value lattice: -1 0 len-1 len len+1 fixnum extremes +-1 bignums ratios nan/inf non-scalar char codes cursors of other "
        "strings cyclic/improper lists immutable literals closed ports records continuations), deep nesting (reader, equal?, write), argument lists longer than the stack spread by apply inside recursion, generic arithmetic over every pair of number representations, tokens at the reader's buffer sizes (string / |symbol| literals with runs of hex escapes, long numbers and identifiers), and a "
        "fixed probe program after every few forms. World: (a) the session text is delivered to read+eval through a simulated stream "
        "(cookie / descriptor / custom port) with chunk tapes, truncated or corrupted (flip / drop / insert / duplicate) at a tape-chosen "
        "byte; (b) the interrupt flag is raised at a tape-chosen tick (any instruction boundary, also during macro expansion); (c) small "
        "stack ceiling variant; (d) forced collections; (e) sessions run inside a green thread with tape-chosen slices. Oracle: the child "
        "neither dies on a signal nor produces an ASan report (heap chunks carry poisoned red zones, freed chunks are poisoned; heap walk "
        "after collections); every form ends in a value or an exception object within the tick budget; the stack top is back at its base "
        "after every top-level evaluation; after every form the probe program prints exactly what it prints in a fresh context. "
        "Non-trivial: >= 3 forms ended in an error object and at least one world decision fired (short delivery, corruption, interrupt, "
        "forced collection, preemption); distinct = event-log hash.")
ASSUMPTIONS = [
    "'every exported procedure x every argument type and boundary value' is SAMPLED as workload (primitives_hit / shapes are reported), not enumerated; "
    "what is decided by simulation is containment under stream faults, interrupts at arbitrary instants, stack/GC/scheduler perturbations",
    "heap-limit exhaustion is excluded by the property: size arguments are capped at 2^20 except for the fixnum/bignum extremes that fail at once",
    "a form applied to a cyclic list that exhausts the tick budget is recorded as inconclusive (R7RS calls such calls errors without requiring detection), not as a violation",
    "internal state setters of the VM (%dk, thread-parameters-set!, current-exception-handler mutation) are not in the hostile-call list",
]
COMPONENTS = {"real": ["reader", "compiler/macro expander", "VM opcodes and foreign primitives", "error/exception delivery", "stack growth", "collector", "ports"],
              "stub": ["source delivery schedule and corruption", "interrupt instant", "collection schedule", "slice lengths", "clock"]}
BUDGET = {"quick": {"seconds": 70, "cases": 8000, "min_cases": 300}, "thorough": {"seconds": 1500, "cases": 600000}}
IMPORTS = ["(srfi 18)", "(chibi io)", "(scheme char)", "(scheme cxr)", "(scheme lazy)", "(scheme inexact)", "(scheme complex)", "(scheme read)", "(scheme write)",
           "(scheme eval)", "(only (chibi string) string-cursor-start string-cursor-end string-cursor-next string-cursor-prev string-cursor-ref string-cursor->index substring-cursor)"]
CONFIGS = {
    "sim": {"variant": "sim", "imports": IMPORTS, "timeout_ms": 45000},
    "tiny": {"variant": "tiny", "imports": IMPORTS, "timeout_ms": 45000},
    "asan": {"variant": "asan", "imports": IMPORTS, "timeout_ms": 90000},
}

PRELUDE = st.SCHEME_PRELUDE + r"""
(define S0 (string)) (define S5 (string-copy "hello")) (define SU (string-copy "a\x3bb;\x1F600;z")) (define SLIT "literal")
(define V0 (vector)) (define V3 (vector 1 'two "three")) (define VLIT '#(1 2 3))
(define BV0 (bytevector)) (define BV4 (bytevector 1 2 3 255))
(define L3 (list 1 2 3)) (define LIMP (cons 1 (cons 2 3))) (define CYC (let ((l (list 1 2 3))) (set-cdr! (cddr l) l) l))
(define DEEP (let loop ((i 0) (acc '())) (if (= i DEEP-N) acc (loop (+ i 1) (list acc)))))
(define CLOSED-IN (let ((p (open-input-string "abc"))) (close-input-port p) p))
(define CLOSED-OUT (let ((p (open-output-string))) (close-output-port p) p))
(define-record-type rec-a (make-rec-a x) rec-a? (x rec-a-x set-rec-a-x!))
(define-record-type rec-b (make-rec-b y) rec-b? (y rec-b-y))
(define RA (make-rec-a 1)) (define RB (make-rec-b 2))
(define K (call/cc (lambda (k) k)))
(define PARAM (make-parameter 10))
(define PROM (delay (+ 1 2)))
(define CUR-OTHER (string-cursor-end "a much longer other string \x3bb;"))
(define (f0) 0) (define (f1 x) x) (define (f2 x y) (list x y)) (define (fr . r) r)
"""
PROBE = ("(list (let loop ((i 0) (a 1)) (if (= i 20) a (loop (+ i 1) (* a 3)))) (string-append \"a\" (string #\\x3bb)) (vector-map (lambda (x) (* x x)) #(1 2 3)) "
         "(call/cc (lambda (k) (+ 1 (k 42)))) (guard (e (#t (list 'err (error-object-message e)))) (error \"boom\" 1)) "
         "(let ((o (open-output-string))) (write '(a \"b\" #\\c 1.5) o) (get-output-string o)) (apply + (map (lambda (x) (* 2 x)) '(1 2 3))) "
         "(dynamic-wind (lambda () #f) (lambda () 'mid) (lambda () #f)) (exact (floor 2.5)) (string->number \"1e3\") (length (list-copy '(1 2 3))) (char-upcase #\\a))")
PROBE_EXPECT = '(3486784401 "a\xce\xbb" #(1 4 9) 42 (err "boom") "(a \\"b\\" #\\\\c 1.5)" 12 mid 2 1000.0 3 #\\A)'

PROCS = """+ - * / = < > <= >= abs quotient remainder modulo floor/ truncate/ floor-quotient truncate-remainder gcd lcm numerator denominator floor ceiling round truncate
exact inexact exact-integer? square number->string string->number max min zero? positive? negative? odd? even? number? integer? rational? real? complex? nan? infinite? finite?
exp log sin cos atan sqrt make-rectangular make-polar real-part imag-part magnitude angle
not boolean? boolean=? eq? eqv? equal?
pair? cons car cdr set-car! set-cdr! caar cadr cdar cddr caddr cdddr cadddr null? list? make-list list length append reverse list-tail list-ref list-set! memq memv member assq assv assoc list-copy
symbol? symbol=? symbol->string string->symbol
char? char=? char<? char->integer integer->char char-upcase char-downcase char-foldcase char-alphabetic? char-numeric? char-whitespace? digit-value
string? make-string string string-length string-ref string-set! string=? string<? string>? string-ci=? substring string-append string->list list->string string-copy string-copy! string-fill! string-upcase string-downcase string-foldcase
string->vector vector->string string->utf8 utf8->string string-map string-for-each
vector? make-vector vector vector-length vector-ref vector-set! vector->list list->vector vector-fill! vector-copy vector-copy! vector-append vector-map vector-for-each
bytevector? make-bytevector bytevector bytevector-u8-ref bytevector-u8-set! bytevector-length bytevector-copy bytevector-copy! bytevector-append
procedure? apply map for-each call-with-current-continuation call/cc values call-with-values dynamic-wind
with-exception-handler raise raise-continuable error error-object? error-object-message error-object-irritants read-error? file-error?
make-parameter force make-promise promise?
input-port? output-port? textual-port? binary-port? port? input-port-open? output-port-open? close-port close-input-port close-output-port
open-input-string open-output-string get-output-string open-input-bytevector open-output-bytevector get-output-bytevector
read-char peek-char read-line read-string read-u8 peek-u8 read-bytevector read-bytevector! char-ready? u8-ready? eof-object eof-object?
write-char write-string write-u8 write-bytevector newline flush-output-port write display write-shared write-simple read
string-cursor-start string-cursor-end string-cursor-next string-cursor-prev string-cursor-ref string-cursor->index substring-cursor
rec-a-x set-rec-a-x! rec-b-y make-rec-a features eval""".split()

ARGS = [
    "-1", "0", "1", "2", "4", "5", "6", "255", "256", "65536", "1048576", "4611686018427387903", "-4611686018427387904", "4611686018427387904", "-4611686018427387905",
    "18446744073709551616", "-123456789012345678901234567890",
    # bignums produced by arithmetic, whose limb arrays are exactly full (2^64-1 in one limb, 2^128-1 in two) -- a literal of the same value has a spare limb
    "(* 4294967295 4294967297)", "(- (* 4294967295 4294967297))", "(- (* 18446744073709551616 18446744073709551616) 1)", "(* (* 4294967295 4294967297) 18446744073709551616)",
    "1/2", "-7/3", "1.5", "-0.0", "+nan.0", "+inf.0", "-inf.0", "1e308", "5e-324", "2+3i",
    "#t", "#f", "'()", "'sym", "'|weird sym|", "#\\a", "#\\x0", "#\\x10FFFF", "#\\x3bb", "(integer->char 55295)",
    "S0", "S5", "SU", "SLIT", '"inline literal"', '(make-string 3 #\\x1F600)', "V0", "V3", "VLIT", "BV0", "BV4", "#u8(1 2)", "L3", "LIMP", "CYC", "DEEP", "'(1 . 2)", "'((a . 1) (b . 2))",
    "car", "f0", "f1", "f2", "fr", "(lambda (x) (car x))", "K", "PARAM", "PROM", "RA", "RB", "rec-a", "CLOSED-IN", "CLOSED-OUT", "(open-input-string \"xyz\")", "(open-output-string)",
    "(current-input-port)", "(current-output-port)", "(eof-object)", "(if #f #f)", "CUR-OTHER", "(string-cursor-start S5)", "(string-cursor-end SU)", "(interaction-environment)",
    "(list 1 2.5 \"s\" #\\c)", "(vector 'a (vector 'b))", "(make-vector 10 0)", "(make-bytevector 10 7)", "(string->symbol \"\")",
]
_STR, _VEC, _BV, _LST = ["S0", "S5", "SU", '(make-string 3 #\\x1F600)'], ["V0", "V3", "(make-vector 10 0)"], ["BV0", "BV4", "(make-bytevector 10 7)", "#u8(1 2)"], ["L3", "'()", "LIMP"]
RANGE_PROCS = {"substring": _STR, "string-copy": _STR, "string->list": _STR, "string->vector": _STR, "string->utf8": _STR, "string-fill!": _STR, "string-copy!": _STR,
               "write-string": _STR, "vector->list": _VEC, "vector-copy": _VEC, "vector-fill!": _VEC, "vector->string": _VEC, "vector-copy!": _VEC,
               "bytevector-copy": _BV, "utf8->string": _BV, "write-bytevector": _BV, "bytevector-copy!": _BV, "list-tail": _LST, "list-ref": _LST, "list-copy": _LST}
ARITH_PROCS = ["+", "-", "*", "/", "quotient", "remainder", "modulo", "gcd", "lcm", "abs", "square", "max", "min", "=", "<", "exact-integer-sqrt", "number->string", "floor/", "truncate/"]
NUMERIC_PROCS = set(PROCS[:PROCS.index("not")])
NUM_ARGS = ARGS[:ARGS.index("#t")]
CYCLIC_ARGS = {"CYC"}
SIZE_PROCS = {"make-vector", "make-string", "make-bytevector", "make-list", "read-string", "read-bytevector", "vector-fill!", "string-fill!", "list-tail", "list-ref",
              "make-rec-a", "string-copy", "vector-copy", "bytevector-copy", "*", "number->string", "square", "exact", "string->number", "exp", "gcd", "lcm"}
HUGE_ARGS = {"4611686018427387903", "4611686018427387904", "18446744073709551616", "1048576", "+inf.0", "+nan.0", "1e308", "-inf.0",
             "-4611686018427387904", "-4611686018427387905", "-123456789012345678901234567890",
             "(* 4294967295 4294967297)", "(- (* 4294967295 4294967297))", "(- (* 18446744073709551616 18446744073709551616) 1)", "(* (* 4294967295 4294967297) 18446744073709551616)",
             # (as the fill of a 65536-element container the deep structure makes the printed result of the form tens of megabytes long)
             "DEEP"}

BENIGN = [
    "(define acc (list 1 2 3))", "(set! acc (cons (length acc) acc))", "(let loop ((i 0) (s 0)) (if (= i 100) s (loop (+ i 1) (+ s i))))",
    "(define (fib n) (if (< n 2) n (+ (fib (- n 1)) (fib (- n 2))))) (fib 12)", "(string->list (string-append S5 SU))", "(vector-map (lambda (x) x) V3)",
    "(let ((p (open-input-string \"(1 2 (3))\"))) (read p))", "(call-with-values (lambda () (values 1 2)) cons)", "(guard (e ((string? e) e)) (raise \"caught\"))",
    "(let ((s (make-string 4 #\\a))) (string-set! s 1 #\\x3bb) s)", "(exact->inexact 1/3)" if False else "(inexact 1/3)", "(apply max '(3 1 2))",
]
NESTED = [
    "(read (open-input-string (string-append (make-string %d #\\() (make-string %d #\\)))))",
    "(equal? DEEP DEEP)",
    "(let ((o (open-output-string))) (write DEEP o) (string-length (get-output-string o)))",
    "(read (open-input-string (make-string %d #\\()))",
    "(read (open-input-string (string-append \"#\" (make-string %d #\\())))",
    "(eval (read (open-input-string (string-append (apply string-append (make-list %d \"(car \")) \"'(1)\" (make-string %d #\\))))) (interaction-environment))",
    "(string->number (make-string %d #\\9))",
    "(let loop ((i 0) (x '())) (if (= i %d) (length x) (loop (+ i 1) (cons i x))))",
    # huge x deep: an argument list longer than the whole evaluation stack spread by apply from inside non-tail recursion (the stack must grow by
    # more than it doubles while a good part of it is in use)
    "(let rec ((d 60)) (if (= d 0) (apply + (make-list %d 1)) (+ 1 (rec (- d 1)))))",
    "(let rec ((d 200)) (if (= d 0) (length (apply list (make-list %d 'a))) (+ 1 (rec (- d 1)))))",
    "(let rec ((d 30)) (if (= d 0) (vector-length (apply vector 1 2 (make-list %d 0))) (+ 1 (rec (- d 1)))))",
    "(let rec ((d 100)) (if (= d 0) (apply (lambda (a . r) (length r)) (make-list %d 0)) (+ 1 (rec (- d 1)))))",
]


def gen_form(rng, light=False):
    k = rng.weighted([("hostile", 10), ("benign", 3), ("nested", 1), ("literal-mutation", 1), ("long-token", 1), ("limb-arith", 1), ("tower", 1)])
    if k == "tower":
        # generic arithmetic over every pair of number representations (fixnum, bignum, small / big ratio, flonum, complex with exact, inexact
        # and ratio parts): each pair has its own conversion path in the C dispatch tables, and results that normalise to another
        # representation (a zero exponent, a real product of complex factors) take paths of their own
        from .. import progs
        a, b = progs.tower_operand(rng), progs.tower_operand(rng)
        op = rng.choice(["+", "-", "*", "/", "=", "<", "max", "quotient", "remainder", "modulo", "expt", "expt", "atan", "make-rectangular", "make-polar", "exact-integer-sqrt",
                         "sqrt", "exp", "log", "sin", "exact", "inexact", "numerator", "floor", "round", "magnitude", "angle", "number->string", "square", "exact-rational?"])
        if op == "expt":
            b = rng.choice(["0", "1", "-1", "2", "-3", "1/2", "0.5", "0.0", "+i", "1+i", "7"])
            if rng.chance(1, 4):
                a, b = rng.choice(["0", "1", "-1", "2", "0.0", "+i", "1/2"]), progs.tower_operand(rng) if rng.chance(1, 2) else b
                if b.lstrip("-").isdigit() and len(b) > 4:
                    b = "3"
        if op in ("sqrt", "exp", "log", "sin", "exact", "inexact", "numerator", "floor", "round", "magnitude", "angle", "number->string", "square", "exact-integer-sqrt", "exact-rational?"):
            src = "(%s %s)" % (op, a)
        else:
            src = "(%s %s %s)" % (op, a, b)
        return {"src": src, "kind": "tower"}
    if k == "limb-arith":
        # integer arithmetic whose operands and results sit at the edges of the bignum limb arrays: +-(2^(64k) - d) built by
        # arithmetic (exactly full limb arrays; literals of the same value carry a spare limb) combined with small operands
        kk = rng.choice([1, 1, 2, 3])
        d = rng.choice([0, 1, 1, 2, 3, 255])
        big = {1: "(* 4294967295 4294967297)", 2: "(- (* 18446744073709551616 18446744073709551616) 1)",
               3: "(- (* 18446744073709551616 (* 18446744073709551616 18446744073709551616)) 1)"}[kk]      # 2^(64k) - 1
        a = big if d == 1 else "(- %s %d)" % (big, d - 1) if d > 1 else "(+ %s 1)" % big
        if rng.chance(1, 3):
            a = "(- %s)" % a
        b = rng.choice(["1", "2", "3", "255", "256", "-1", "-2", "-255", "4611686018427387903", "-4611686018427387904", a])
        op = rng.choice(["+", "+", "-", "-", "*", "quotient", "remainder", "gcd", "max", "exact-integer-sqrt", "number->string", "square", "abs", "="])
        args = [a] if op in ("exact-integer-sqrt", "number->string", "square", "abs") else rng.choice([[a, b], [b, a], [a, b, b]])
        src = "(%s %s)" % (op, " ".join(args))
        if rng.chance(1, 4):
            src = "(apply %s (list %s))" % (op, " ".join(args))
        return {"src": src, "kind": "limb-arith"}
    if k == "long-token":
        # source text whose tokens cross the reader's internal buffer sizes (128 * 2^k): plain characters followed by / mixed with
        # runs of hex escapes of characters of every UTF-8 width, in string and |symbol| literals, plus long numbers and identifiers
        edge = rng.choice([128, 256, 512, 1024, 4096]) + rng.range(-9, 3)
        plain = "".join(rng.choice("abcxyz 019") for _ in range(max(0, edge - rng.choice([0, 0, 1, 2, 3, 5, 8, 40]))))
        run = "".join("\\x%x;" % rng.choice([0x41, 0xe9, 0x3bb, 0x20ac, 0x1F600, 0x10FFFF, 0x80, 0x7ff, 0x800, 0xffff, 0x10000]) for _ in range(rng.choice([1, 2, 3, 8, 40, 200])))
        body = rng.choice([plain + run, run + plain, plain + run + "z" + run, run])
        kind = rng.below(6)
        if kind == 5:
            # datum labels: more labels than the reader's initial table, then one far ahead
            nl = rng.choice([3, 20, 23, 24, 25, 47, 60])
            big = rng.choice([nl, nl + 1, nl + 15, nl + 17, 100, 200, 300, 400, 430, 600, 5000, 100000])
            # ... sometimes with a reference to a label that was never defined (at, just above and far above the table size): a read error
            undef = rng.choice(["", "", " #%d#" % nl, " #%d#" % (nl + 1), " #30#", " #100#", " #5000#", " #400000000#"])
            txt = "(" + " ".join("#%d=(a%d)" % (j, j) for j in range(nl)) + undef + " #%d=(z) #%d# #0#)" % (big, big)
            # as a quoted literal (the core reader parses the program text) or through read (the library reader)
            alt = '(let ((x (read (open-input-string "%s")))) (if (pair? x) (length x) x))' % txt
            if rng.chance(2, 3):
                # "alt" replaces the literal where the whole session is one program text (a read error there is the session's, not the form's)
                return {"src": "(length '%s)" % txt, "kind": "long-token", "alt": alt}
            src = alt
        elif kind == 0:
            src = '(string-length "%s")' % body
        elif kind == 1:
            src = "(string-length (symbol->string '|%s|))" % body.replace(" ", "_")
        elif kind == 2:
            src = '(string-length (read (open-input-string "\\"%s\\"")))' % body.replace("\\", "\\\\")
        elif kind == 3:
            src = "(exact? %s%s)" % (rng.choice(["", "-", "#x", "1/", "#e1."]), "1" + "".join(rng.choice("0123456789") for _ in range(edge)))
        else:
            src = "(symbol? 'a%s)" % "".join(rng.choice("abc-!?*<>=/+0") for _ in range(edge))
        return {"src": src, "kind": "long-token"}
    if k == "hostile":
        boost = rng.below(12)
        proc = rng.choice(sorted(RANGE_PROCS)) if boost < 2 else (rng.choice(ARITH_PROCS) if boost == 2 else rng.choice(PROCS))
        nargs = rng.weighted([(0, 1), (1, 5), (2, 6), (3, 4), (4, 1)])
        args = [rng.choice(ARGS) for _ in range(nargs)]
        if proc in RANGE_PROCS and rng.chance(1, 2):
            # (container [fill] start end) procedures: the right kind of container with start/end from the boundary lattice around its length
            cont = rng.choice(RANGE_PROCS[proc])
            idx = lambda: rng.choice(["-1", "0", "1", "2", "3", "4", "5", "6", "255", "65536", "4611686018427387903", "1.0", "'x"])  # noqa
            args = [cont] + [idx() for _ in range(rng.range(0, 2))]
            if proc in ("vector-fill!", "string-fill!", "bytevector-fill!"):
                args = [cont, {"vector-fill!": "'z", "string-fill!": "#\\z", "bytevector-fill!": "7"}[proc]] + args[1:]
            if proc in ("string-copy!", "vector-copy!", "bytevector-copy!"):
                args = [cont, idx(), rng.choice(RANGE_PROCS[proc])] + args[1:]
        elif proc in NUMERIC_PROCS and rng.chance(1, 2):
            # numeric procedures: every combination of number kinds (fixnum limits, bignums, ratios, signed zeros, infinities, NaN, complex)
            args = [rng.choice(NUM_ARGS) for _ in range(nargs)]
        if proc == "dynamic-wind" and len(args) >= 3:
            # an after thunk that raises or escapes is re-run by every further escape through the same extent (the wind list is only
            # updated after the thunks have run): leaving an after thunk by a continuation is unspecified in R7RS, so the program may
            # loop by its own fault; before and body stay hostile
            args[2] = rng.choice(["f0", "fr", "PARAM", "(lambda () 1)"])
        if proc in SIZE_PROCS:
            # a size that cannot be allocated is heap exhaustion, which the property excludes (and non-finite sizes loop allocating)
            args = ["65536" if a in HUGE_ARGS else a for a in args]
        # the route by which the procedure is reached varies too: direct call, apply with a spread list (of any length), first-class value
        shape = rng.weighted([("direct", 12), ("apply", 3), ("apply2", 2), ("value", 2), ("map", 1)])
        if shape != "direct" and rng.chance(1, 3):
            args += [rng.choice(ARGS) for _ in range(rng.range(1, 5))]
            if proc in SIZE_PROCS:
                args = ["65536" if a in HUGE_ARGS else a for a in args]
        al = "".join(" " + a for a in args)
        if shape == "apply":
            src = "(apply %s (list%s))" % (proc, al)
        elif shape == "apply2" and args:
            src = "(apply %s %s (list%s))" % (proc, args[0], "".join(" " + a for a in args[1:]))
        elif shape == "value":
            src = "((car (list %s))%s)" % (proc, al)
        elif shape == "map" and args:
            src = "(map %s%s)" % (proc, "".join(" (list %s %s)" % (a, rng.choice(ARGS)) for a in args[:3]))
        else:
            src = "(%s%s)" % (proc, al)
        return {"src": src, "kind": "hostile", "proc": proc, "cyclic": any(a in CYCLIC_ARGS for a in args) or any(c in src for c in CYCLIC_ARGS)}
    if k == "benign":
        return {"src": rng.choice(BENIGN), "kind": "benign"}
    if k == "nested":
        t = rng.choice(NESTED)
        n = rng.choice([10, 300, 1000]) if light else rng.choice([10, 1000, 5000, 20000])
        if "(car " in t:
            n = min(n, 2000)
        if "(let rec ((d" in t:
            n = rng.choice([3000, 20000, 40000])
        return {"src": t % tuple([n] * t.count("%d")), "kind": "nested"}
    return {"src": rng.choice(["(string-set! SLIT 0 #\\x)", "(vector-set! VLIT 0 'x)", "(set-car! '(1 2) 9)", "(string-fill! \"lit\" #\\z)", "(bytevector-u8-set! #u8(1 2) 0 9)",
                               "(string-copy! SLIT 0 S5)", "(list-set! '(1 2 3) 1 'x)", "(vector-fill! VLIT 0)"]), "kind": "literal-mutation"}


def generate(rng, tier, index, seed):
    mode = rng.weighted([("eval", 5), ("stream", 4), ("thread", 2)])
    cfg = rng.weighted([("asan", 4), ("sim", 3), ("tiny", 3)])
    n = rng.range(8, 24) if cfg == "asan" else rng.range(8, 40)
    forms = [gen_form(rng, cfg == "asan") for _ in range(n)]
    if mode != "eval":
        forms = [dict(f, src=f["alt"]) if "alt" in f else f for f in forms]
    q = rng.choice([500, 100, 13, 3])
    # the budget is meant in VM instructions (about 100M): a tick happens every q instructions
    sched = {"default_q": q, "tick_budget": max(2000, 100000000 // q), "default_clock_step": 20}
    if rng.chance(1, 3):
        # armed relative to the first session step (the prelude is never interrupted)
        sched["interrupt_rel"] = rng.range(1, 4000)
        sched["interrupt_rel_step"] = 1
    gc = rng.choice([{"mode": "none"}, {"mode": "bernoulli", "p1024": rng.choice([2, 16, 128]), "seed": rng.below(1 << 30), "max_forced": 300, "heapcheck_every": rng.choice([0, 1, 7])},
                     {"mode": "every", "n": rng.choice([1, 3, 50]), "off": rng.below(20000), "max_forced": 300}])
    case = {"prop": ID, "index": index, "seed": seed, "config": cfg, "mode": mode, "forms": forms, "sched": sched, "gc": gc,
            "meta": {"family": mode + "-" + cfg}}
    if mode == "stream":
        case["kind"] = rng.choice(["cookie", "fd", "custom"])
        case["chunk_seed"] = rng.below(1 << 30)
        if rng.chance(1, 8):
            case["xeval"] = True
            case["meta"]["family"] = "stream-xeval-" + cfg
        if rng.chance(1, 2):
            case["corrupt"] = {"kind": rng.choice(["truncate", "flip", "drop", "insert", "dup"]), "pos": rng.below(1 << 20), "arg": rng.below(256)}
    if mode == "thread":
        sched["quantum"] = [rng.range(1, 80) for _ in range(rng.range(10, 500))]
        sched["tick_budget"] += len(sched["quantum"])
    return case


def corrupt(data, spec):
    if not data:
        return data
    pos = (spec["pos"] * len(data)) >> 20
    k = spec["kind"]
    b = bytearray(data)
    if k == "truncate":
        return bytes(b[:pos])
    if k == "flip":
        b[pos] ^= 1 << (spec["arg"] % 8)
        return bytes(b)
    if k == "drop":
        del b[pos]
        return bytes(b)
    if k == "insert":
        b.insert(pos, spec["arg"])
        return bytes(b)
    return bytes(b[:pos] + b[max(0, pos - 9):])


def plan_of(case):
    from ..common import Rng
    # the asan variant's allocator is slow (see DESIGN): a shallower DEEP there
    steps = [{"op": "eval", "src": "(define DEEP-N %d)\n" % (1500 if case["config"] == "asan" else 5000) + PRELUDE}]
    streams = {}
    mode = case["mode"]
    forms = case["forms"]
    if mode == "eval":
        for i, f in enumerate(forms):
            steps.append({"op": "eval", "src": f["src"]})
            if i % 4 == 3 or i == len(forms) - 1:
                steps.append({"op": "eval", "src": PROBE})
    else:
        text = "\n".join(f["src"] for f in forms).encode("utf-8")
        if mode == "stream":
            data = corrupt(text, case["corrupt"]) if case.get("corrupt") else text
            chunks = case.get("chunks")
            if chunks is None:
                chunks = st.gen_chunks(Rng(case["chunk_seed"]), case["kind"], "in", min(len(data), 300))
            streams["src"] = st.stream(case["kind"], "in", data, chunks)
            # run-time errors are caught INSIDE the evaluated form (handler and escape live in the same VM activation as the
            # error); the outer handler only sees errors that eval returns without a nested activation being abandoned
            # (syntax errors). The "xeval" sub-family keeps the handler outside eval, i.e. the escape crosses eval's C frame.
            # K (a continuation captured by the prelude's top level, long finished) is rebound per form to an escape out of that form:
            # re-entering a finished top-level evaluation from inside a session (or from another green thread) leaves the session's
            # handlers by design and says nothing about memory safety or containment
            wrap = ("(list 'call/cc (list 'lambda '(K) x))" if case.get("xeval")
                    else "(list 'call/cc (list 'lambda '(k2) (list 'let '((K k2)) (list 'with-exception-handler '(lambda (e) (k2 'in-eval-error)) (list 'lambda '() x)))))")
            loader = ("(let ((p (open-sim-input \"src\")) (env (interaction-environment))) (let loop ((n 0) (errs 0)) "
                      "(let ((x (call/cc (lambda (k) (with-exception-handler (lambda (e) (k (list 'read-error-marker))) (lambda () (read p))))))) "
                      "(cond ((eof-object? x) (list 'forms n 'errors errs)) ((equal? x '(read-error-marker)) (list 'forms n 'errors errs 'read-error)) "
                      "(else (let ((ok (call/cc (lambda (k) (with-exception-handler (lambda (e) (k #f)) (lambda () (not (eq? 'in-eval-error (eval %s env))))))))) (loop (+ n 1) (if ok errs (+ errs 1)))))))))" % wrap)
            steps.append({"op": "eval", "src": loader})
        else:
            body = " ".join("(call/cc (lambda (k) (let ((K k)) (with-exception-handler (lambda (e) (k 'err)) (lambda () %s)))))" % f["src"] for f in forms)
            steps.append({"op": "eval", "src": "(thread-join! (thread-start! (make-thread (lambda () %s 'session-done))))" % body})
        steps.append({"op": "eval", "src": PROBE})
    steps.append({"op": "eval", "src": PROBE})
    return {"id": 1, "steps": steps, "gc": case["gc"], "sched": case["sched"], "streams": streams}


def execute(case, run):
    oc = Outcome()
    oc.case = case
    plan = plan_of(case)
    if case["mode"] == "stream" and case.get("chunks") is None:
        case = dict(case)
        case["chunks"] = plan["streams"]["src"]["chunks"]
        oc.case = case
    res = run(case["config"], plan)
    ip = infra_problem(res)
    if ip:
        oc.infra = ip
        return oc
    oc.result = res
    oc.trace = res.get("ev_hash", "") or res.get("status", "")
    V = oc.verdicts
    has_cyclic = any(f.get("cyclic") or any(c in f["src"] for c in CYCLIC_ARGS) for f in case["forms"])
    if res.get("status") in ("budget", "timeout") or any(v.get("class") == "budget" for v in res.get("violations", []) or []):
        # (a cyclic object that ends up as the payload of an uncaught condition is also written out by the harness itself)
        if has_cyclic or case.get("corrupt"):
            # inconclusive by the stated assumptions (a corrupted program is another program and may loop)
            oc.probes = {"cyclic_argument_exhausted_budget": 1}
            return oc
    V += crash_verdicts(res, "session")
    for v in V:
        v.sig["xeval"] = bool(case.get("xeval"))
    if res.get("status") != "ok":
        return oc
    steps = res["steps"]
    if steps[0]["exc"]:
        V.append(Verdict("setup-error", steps[0]["res"][:300], {}))
        return oc
    plan_steps = plan["steps"]
    errors = 0
    interrupted = 0
    for i, (ps, s) in enumerate(zip(plan_steps[1:], steps[1:]), 1):
        is_probe = ps["src"] == PROBE
        if s["exc"]:
            errors += 1
            if "interrupt" in s["res"].lower():
                interrupted += 1
        if s.get("top", 0) != 0:
            V.append(Verdict("stack-not-reset", "after form %d %r the evaluation stack top is %d, not 0" % (i, ps["src"][:100], s["top"]), {}))
            break
        if is_probe:
            if s["exc"] and "interrupt" in s["res"].lower():
                continue    # the interrupt may land inside the probe itself
            if not s["exc"] and "interrupt_rel" in case["sched"] and s["res"].replace('(err "interrupt")', '(err "boom")') == PROBE_EXPECT:
                continue    # ... and be caught by the probe's own guard clause, which reports it in place of "boom"
            if s["exc"] or s["res"] != PROBE_EXPECT:
                prev = plan_steps[i - 1]["src"][:160] if i > 1 else ""
                V.append(Verdict("context-diverged", "probe after form %r gave %r (fresh context gives %r)" % (prev, s["res"][:300], PROBE_EXPECT[:120]), {"mode": case["mode"]}))
                break
    stt = res["stats"]
    cnt = res.get("counters", {})
    if case["mode"] != "eval":
        sess = steps[1]
        if sess["exc"] and "interrupt" not in sess["res"].lower() and "out of stack" not in sess["res"].lower():
            V.append(Verdict("session-escaped", "the guarded session ended with an error at top level: %s" % sess["res"][:300], {"mode": case["mode"]}))
        if case["mode"] == "stream" and not sess["exc"]:
            errors += sum(int(x) for x in [t for t in sess["res"].replace("(", " ").replace(")", " ").split()][3:4] if x.isdigit())
        if case["mode"] == "thread":
            errors += 3
    oc.fired = {"forced_collection": stt["gc_forced"], "interrupt": cnt.get("interrupts_raised", 0), "short_read": cnt.get("stream_short_read", 0),
                "would_block": cnt.get("stream_would_block", 0), "context_switches": stt["switches"],
                "source_corrupted": 1 if case.get("corrupt") else 0, "forms_ending_in_error_object": errors}
    hit = set(f["proc"] for f in case["forms"] if f["kind"] == "hostile")
    oc.probes = {"primitives_in_session": len(hit)}
    oc.stats = {"sim_us": stt["sim_us"], "ticks": stt["ticks"], "allocs": stt["allocs"], "forms": len(case["forms"])}
    fired_any = stt["gc_forced"] + cnt.get("interrupts_raised", 0) + cnt.get("stream_short_read", 0) + (1 if case.get("corrupt") else 0) + (1 if stt["switches"] > 2 else 0)
    oc.nontrivial = errors >= 3 and fired_any >= 1
    return oc


def sample(case, oc):
    return {"mode": case["mode"], "config": case["config"], "gc": case["gc"], "sched": {k: (v[:12] if isinstance(v, list) else v) for k, v in case["sched"].items()},
            "corrupt": case.get("corrupt"), "forms": [f["src"][:120] for f in case["forms"][:30]], "trace": oc.trace}


def shrink(case):
    forms = case["forms"]
    for cand in shrink_list(forms, 1):
        c = copy.deepcopy(case)
        c["forms"] = cand
        c.pop("chunks", None)
        yield c
    if case["gc"].get("mode") != "none":
        c = copy.deepcopy(case)
        c["gc"] = {"mode": "none"}
        yield c
    if "interrupt_rel" in case["sched"]:
        c = copy.deepcopy(case)
        del c["sched"]["interrupt_rel"]
        yield c
    if case.get("corrupt"):
        c = copy.deepcopy(case)
        del c["corrupt"]
        c.pop("chunks", None)
        yield c
    if case["mode"] != "eval":
        c = copy.deepcopy(case)
        c["mode"] = "eval"
        c["meta"]["family"] = "eval-" + c["config"]
        c["sched"].pop("quantum", None)
        yield c


DESIGN_REF = "DESIGN.md section 5, C01"
LEVEL_TEXT = ("Seeded search over sessions x (source delivery schedule and corruption, interrupt instant, stack ceiling, collection schedule, "
              "preemption) with the memory-safety oracle made observable inside the Scheme heap (poisoned red zones and freed chunks under "
              "ASan, byte poisoning + heap walks otherwise), value-or-error-object per form, stack-top reset, and a fixed probe program that "
              "must print what a fresh context prints. Exploration: the primitive x shape space is sampled, not enumerated.")
LEVEL_NOTE = ("Hostile-call coverage is input sampling (reported as primitives_in_session), not the claim. Heap exhaustion excluded. Budget exhaustion on "
              "cyclic-list arguments is inconclusive by assumption.")
