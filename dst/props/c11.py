"""C11 -- green threads: mutual exclusion, no lost wake-ups, completion, schedule independence."""
import copy

from ..engine import Outcome, Verdict, crash_verdicts, infra_problem, shrink_list

ID = "C11"
RULE = ("case = (thread program from a family with a generator-computed sequential specification -- mutex counters, lock pairs, bounded buffers, fork/join trees, join states, thread locals, timed waits with a wide margin (the waiting thread first goes through a drawn history of completed sleeps / timed-out lock, join and condition waits), timed races where a foreign call that takes simulated time carries the clock past a deadline in the same scheduler call as the competing event, several waiters on one event with an empty run queue, callbacks -- slice-length tape, clock tape, "
        "collection points). The real SRFI-18 scheduler and primitives run unmodified; the simulator decides the length of every time "
        "slice (1 instruction .. default quantum), the clock step of every tick and forward clock jumps. Checked at every scheduler "
        "call: queue shape/BACK pointer/duplicates/deadline order; deadlock detector (lost wake-up); after the run: output equals the "
        "sequential specification (which is schedule independent). Non-trivial: >= 2 threads, >= 10 context switches and at least one "
        "slice shorter than the default quantum actually consumed; distinct = distinct hashes of the (from,to,reason) switch sequence.")
ASSUMPTIONS = [
    "which thread runs next stays the real scheduler's decision (it is the code under test); the simulator only decides slice lengths, clock and collections",
    "fairness beyond eventual progress, thread-terminate! of a lock holder and continuations crossing threads are not part of the statement",
    "backward clock jumps are not injected (the scheduler uses wall-clock deadlines; no property promises anything then)",
    "timed families assert an exact outcome only when the simulated-time margin makes the other outcome impossible; otherwise only consistency of state with the returned outcome",
]
COMPONENTS = {"real": ["VM fuel/preemption", "sexp_scheduler", "mutex/condvar/join/sleep primitives", "lib/srfi/18/interface.scm retry loops", "collector"],
              "stub": ["slice lengths", "gettimeofday/usleep (simulated clock)", "collection schedule"]}
BUDGET = {"quick": {"seconds": 75, "cases": 20000, "min_cases": 600}, "thorough": {"seconds": 1500, "cases": 2000000}}
CONFIGS = {
    "sim": {"variant": "sim", "imports": ["(srfi 18)", "(srfi 39)", "(srfi 95)"], "timeout_ms": 60000},
    "asan": {"variant": "asan", "imports": ["(srfi 18)", "(srfi 39)", "(srfi 95)"], "timeout_ms": 180000},
}


# ---------------------------------------------------------------- families
def f_mutex_counter(rng):
    t = rng.range(2, 4)
    ns = [rng.range(1, 12) for _ in range(t)]
    inner = rng.choice(["(let spin ((j 0)) (if (< j %d) (spin (+ j 1))))" % rng.range(0, 40), "(thread-yield!)", "(begin)"])
    src = """
(define m (make-mutex)) (define counter 0) (define in-cs 0) (define bad 0)
(define (worker n)
  (lambda ()
    (let loop ((i 0))
      (if (< i n)
          (begin
            (mutex-lock! m)
            (set! in-cs (+ in-cs 1))
            (if (> in-cs 1) (set! bad (+ bad 1)))
            (let ((c counter)) %s (set! counter (+ c 1)))
            (set! in-cs (- in-cs 1))
            (mutex-unlock! m)
            (loop (+ i 1)))
          (* n 10)))))
(define ths (map (lambda (n) (make-thread (worker n))) '(%s)))
(for-each thread-start! ths)
(write (map thread-join! ths))
(write (list counter bad in-cs (mutex-state m)))
""" % (inner, " ".join(map(str, ns)))
    exp = "(%s)(%d 0 0 not-abandoned)" % (" ".join(str(n * 10) for n in ns), sum(ns))
    return "mutex-counter", src, exp, t + 1


def f_two_locks(rng):
    t = rng.range(2, 3)
    n = rng.range(1, 8)
    src = """
(define a (make-mutex 'a)) (define b (make-mutex 'b)) (define x 0) (define y 0) (define bad 0)
(define (worker id)
  (lambda ()
    (let loop ((i 0))
      (if (< i %d)
          (begin
            (mutex-lock! a)
            (let ((x0 x))
              (mutex-lock! b)
              (let ((y0 y))
                (thread-yield!)
                (if (not (= x0 y0)) (set! bad (+ bad 1)))
                (set! y (+ y0 1)))
              (mutex-unlock! b)
              (set! x (+ x0 1)))
            (mutex-unlock! a)
            (loop (+ i 1)))
          id))))
(define ths (map (lambda (id) (thread-start! (make-thread (worker id)))) '(%s)))
(write (map thread-join! ths)) (write (list x y bad))
""" % (n, " ".join(map(str, range(t))))
    exp = "(%s)(%d %d 0)" % (" ".join(map(str, range(t))), n * t, n * t)
    return "two-locks", src, exp, t + 1


def f_condvar_buffer(rng):
    prods = rng.range(1, 3)
    cons = rng.range(1, 3)
    per = rng.range(1, 6)
    total = prods * per
    shares = [total // cons] * cons
    shares[-1] += total - sum(shares)
    cap = rng.range(1, 3)
    wake = rng.choice(["condition-variable-signal!", "condition-variable-broadcast!"])
    src = """
(define m (make-mutex)) (define not-empty (make-condition-variable)) (define not-full (make-condition-variable))
(define buf '()) (define count 0) (define cap %d)
(define (put! x)
  (mutex-lock! m)
  (let wait () (if (>= count cap) (begin (mutex-unlock! m not-full) (mutex-lock! m) (wait))))
  (set! buf (append buf (list x))) (set! count (+ count 1))
  (%s not-empty)
  (mutex-unlock! m))
(define (get!)
  (mutex-lock! m)
  (let wait () (if (= count 0) (begin (mutex-unlock! m not-empty) (mutex-lock! m) (wait))))
  (let ((x (car buf)))
    (set! buf (cdr buf)) (set! count (- count 1))
    (%s not-full)
    (mutex-unlock! m)
    x))
(define (producer id) (lambda () (do ((i 0 (+ i 1))) ((= i %d) 'p) (put! (+ (* id 100) i)))))
(define (consumer k) (lambda () (let loop ((i 0) (acc '())) (if (= i k) (reverse acc) (loop (+ i 1) (cons (get!) acc))))))
(define ps (map (lambda (id) (thread-start! (make-thread (producer id)))) '(%s)))
(define cs (map (lambda (k) (thread-start! (make-thread (consumer k)))) '(%s)))
(define got (map thread-join! cs))
(write (map thread-join! ps))
(define (ordered? l) (or (null? l) (null? (cdr l)) (and (let ((a (car l))) (let lp ((r (cdr l))) (or (null? r) (and (or (not (= (quotient a 100) (quotient (car r) 100))) (< a (car r))) (lp (cdr r)))))) (ordered? (cdr l)))))
(define (insert x l) (cond ((null? l) (list x)) ((< x (car l)) (cons x l)) (else (cons (car l) (insert x (cdr l))))))
(define (isort l) (let lp ((l l) (acc '())) (if (null? l) acc (lp (cdr l) (insert (car l) acc)))))
(write (isort (apply append got)))
(write (map ordered? got))
(write (list count buf (map length got)))
""" % (cap, wake, wake, per, " ".join(map(str, range(1, prods + 1))), " ".join(map(str, shares)))
    items = sorted(p * 100 + i for p in range(1, prods + 1) for i in range(per))
    exp = "(%s)(%s)(%s)(0 () (%s))" % (" ".join(["p"] * prods), " ".join(map(str, items)), " ".join(["#t"] * cons), " ".join(map(str, shares)))
    return "condvar-buffer", src, exp, prods + cons + 1


def f_fork_join(rng):
    depth = rng.range(1, 3)
    fan = rng.range(2, 3)
    leaf_work = rng.range(0, 30)
    src = """
(define started 0) (define sm (make-mutex))
(define (tree d id)
  (lambda ()
    (mutex-lock! sm) (set! started (+ started 1)) (mutex-unlock! sm)
    (if (= d 0)
        (let spin ((j 0) (acc id)) (if (< j %d) (spin (+ j 1) (+ acc 1)) acc))
        (let ((kids (map (lambda (k) (thread-start! (make-thread (tree (- d 1) (+ (* id 10) k))))) '(%s))))
          %s
          (apply + id (map thread-join! kids))))))
(define root (thread-start! (make-thread (tree %d 1))))
(write (thread-join! root)) (write started)
""" % (leaf_work, " ".join(map(str, range(1, fan + 1))), rng.choice(["(thread-yield!)", "(begin)", "(thread-sleep! 0.001)"]), depth)

    def val(d, i):
        if d == 0:
            return i + leaf_work
        return i + sum(val(d - 1, i * 10 + k) for k in range(1, fan + 1))

    def cnt(d):
        return 1 if d == 0 else 1 + fan * cnt(d - 1)
    exp = "%d%d" % (val(depth, 1), cnt(depth))
    return "fork-join", src, exp, cnt(depth) + 1


def f_join_states(rng):
    """joiner joins before, while and after the joinee runs; error in a thread is delivered to the joiner."""
    src = """
(define (quick) (lambda () 'q))
(define (slow n) (lambda () (let spin ((j 0)) (if (< j n) (spin (+ j 1)) (list 's n)))))
(define (sleeper) (lambda () (thread-sleep! 0.01) 'slept))
(define (failing) (lambda () (raise 'boom)))
(define t1 (make-thread (quick))) (define t2 (make-thread (slow %d))) (define t3 (make-thread (sleeper))) (define t4 (make-thread (failing)))
(define e (current-error-port))
(thread-start! t1)
(let spin ((j 0)) (if (< j %d) (spin (+ j 1))))
(define r1 (thread-join! t1))
(thread-start! t2) (thread-start! t3)
(define r2 (thread-join! t2))
(define r3 (thread-join! t3))
(define r1b (thread-join! t1))
(define r4 (call/cc (lambda (k) (with-exception-handler (lambda (x) (k (list 'raised x))) (lambda () (thread-start! t4) (thread-join! t4))))))
(write (list r1 r2 r3 r1b r4))
""" % (rng.range(1, 200), rng.range(0, 300))
    return "join-states", src, None, 5


def f_many_waiters(rng):
    """several threads blocked on the SAME event (join of one thread / one mutex / one condition variable that is broadcast)
    while nothing else is runnable: every one of them must be resumed, whatever the state of the run queue at that moment"""
    n = rng.range(2, 5)
    ids = " ".join(map(str, range(1, n + 1)))
    pre = rng.choice(["(thread-sleep! 0.01)", "(thread-sleep! 0.002)", "(let spin ((j 0)) (if (< j %d) (spin (+ j 1))))" % rng.choice([10, 300, 3000]), "(thread-yield!)", "(begin)"])
    late_start = rng.chance(1, 2)
    scen = rng.choice(["join", "join", "mutex", "broadcast"])
    if scen == "join":
        src = """
(define target (make-thread (lambda () %s 'done)))
%s
(define js (map (lambda (i) (thread-start! (make-thread (lambda () (list i (thread-join! target)))))) '(%s)))
%s
(write (map thread-join! js))
(write (thread-join! target))
""" % (pre, "" if late_start else "(thread-start! target)", ids, "(thread-yield!) (thread-start! target)" if late_start else "")
        exp = "(" + " ".join("(%d done)" % i for i in range(1, n + 1)) + ")done"
    elif scen == "mutex":
        src = """
(define m (make-mutex)) (define count 0)
(mutex-lock! m)
(define ws (map (lambda (i) (thread-start! (make-thread (lambda () (mutex-lock! m) (set! count (+ count 1)) (mutex-unlock! m) i)))) '(%s)))
(thread-yield!)
%s
(mutex-unlock! m)
(write (map thread-join! ws)) (write count) (write (mutex-state m))
""" % (ids, pre)
        exp = "(" + ids + ")%dnot-abandoned" % n
    else:
        src = """
(define m (make-mutex)) (define cv (make-condition-variable)) (define go #f) (define woke 0)
(define ws (map (lambda (i) (thread-start! (make-thread (lambda ()
   %s
   (mutex-lock! m)
   (let ((ok (let wait ((ok #t)) (if (not go) (let ((r (mutex-unlock! m cv%s))) (mutex-lock! m) (wait (and ok r))) ok))))
     (set! woke (+ woke 1)) (mutex-unlock! m) (if ok i (list i 'woken-but-reported-as-timeout))))))) '(%s)))
(thread-yield!) %s
%s
(mutex-lock! m) (set! go #t) (condition-variable-broadcast! cv) (mutex-unlock! m)
(write (map thread-join! ws)) (write woke)
""" % (rng.choice(HISTORY), rng.choice(["", " 50", " 50"]), ids, rng.choice(["", "(thread-sleep! 0.2)", "(thread-sleep! 0.2)"]), pre)
        exp = "(" + ids + ")%d" % n
    return "many-waiters-" + scen, src, exp, n + 2


def f_locals(rng):
    t = rng.range(2, 3)
    bodies = []
    for i in range(t):
        k = rng.range(1, 4)
        steps = []
        for j in range(k):
            c = rng.below(4)
            if c == 0:
                steps.append("(parameterize ((p (+ (p) %d))) (note (p)) (spin %d) (note (p)))" % (rng.range(1, 9), rng.range(0, 30)))
            elif c == 1:
                steps.append("(dynamic-wind (lambda () (note 'in%d)) (lambda () (spin %d) (note (p))) (lambda () (note 'out%d)))" % (j, rng.range(0, 30), j))
            elif c == 2:
                steps.append("(note (call/cc (lambda (k) (with-exception-handler (lambda (e) (k (list 'h%d e (p)))) (lambda () (spin %d) (raise 'x%d))))))" % (j, rng.range(0, 20), j))
            else:
                steps.append("(note (with-exception-handler (lambda (e) (* e 2)) (lambda () (+ 1 (raise-continuable %d)))))" % rng.range(1, 50))
        bodies.append("(lambda () (let ((trace '())) (define (note x) (set! trace (cons x trace))) (parameterize ((p %d)) %s) (reverse trace)))"
                      % (i * 100, " ".join(steps)))
    src = """
(define p (make-parameter 0))
(define (spin n) (let lp ((j 0)) (if (< j n) (lp (+ j 1)))))
(define bodies (list %s))
(define solo (map (lambda (b) (b)) bodies))
(define ths (map (lambda (b) (thread-start! (make-thread b))) bodies))
(define conc (map thread-join! ths))
(write (equal? solo conc)) (write (p)) (write (length solo))
""" % " ".join(bodies)
    return "locals", src, "#t0%d" % t, t + 1


# what a thread may have been through BEFORE the wait under test: completed timed waits of every kind (their expiry must leave nothing behind
# that changes the outcome of a later wait)
HISTORY = ["", "", "(thread-sleep! 0.01)", "(thread-sleep! 0.001) (thread-sleep! 0.002)",
           "(let ((mx (make-mutex))) (mutex-lock! mx) (mutex-unlock! mx (make-condition-variable) 0.01))",
           "(thread-join! (make-thread (lambda () 1)) 0.01 'never-started)",
           "(let ((mx (make-mutex))) (thread-join! (thread-start! (make-thread (lambda () (mutex-lock! mx) 1)))) (mutex-lock! mx 0.01))"]


def f_timed(rng):
    """timeouts placed well before / well after the competing event (exact outcome) -- the simulated clock advances at most
    50us per tick, so a 10x margin in simulated time cannot be consumed by instruction execution."""
    scen = rng.choice(["lock-timeout", "lock-ok", "join-timeout", "join-ok", "cv-timeout", "cv-ok", "cv-ok", "sleep-order"])
    hist = rng.choice(HISTORY)
    if scen == "lock-timeout":
        src = """
(define m (make-mutex))
(mutex-lock! m)
(define t (thread-start! (make-thread (lambda () (let ((r (mutex-lock! m 0.05))) (list r (eq? (mutex-state m) (current-thread))))))))
(thread-sleep! 2)
(define r (thread-join! t))
(mutex-unlock! m)
(write r)
"""
        exp = "(#f #f)"
    elif scen == "lock-ok":
        src = """
(define m (make-mutex))
(mutex-lock! m)
(define t (thread-start! (make-thread (lambda () %s (let ((r (mutex-lock! m 5))) (let ((own (eq? (mutex-state m) (current-thread)))) (if r (mutex-unlock! m)) (list r own)))))))
(thread-sleep! 0.5)
(mutex-unlock! m)
(write (thread-join! t))
""" % hist
        exp = "(#t #t)"
    elif scen == "join-timeout":
        src = """
(define t (thread-start! (make-thread (lambda () (thread-sleep! 3) 'late))))
(write (thread-join! t 0.05 'timed-out))
(write (thread-join! t))
"""
        exp = "timed-outlate"
    elif scen == "join-ok":
        src = """
(define t (thread-start! (make-thread (lambda () (thread-sleep! 0.5) 'early))))
%s
(write (thread-join! t 5 'timed-out))
""" % hist
        exp = "early"
    elif scen == "cv-timeout":
        src = """
(define m (make-mutex)) (define cv (make-condition-variable))
(mutex-lock! m)
(write (mutex-unlock! m cv 0.05))
(write (mutex-state m))
"""
        exp = "#fnot-abandoned"
    elif scen == "cv-ok":
        src = """
(define m (make-mutex)) (define cv (make-condition-variable)) (define flag #f)
(define t (thread-start! (make-thread (lambda () (thread-sleep! 0.5) (mutex-lock! m) (set! flag #t) (condition-variable-%s! cv) (mutex-unlock! m) 'signalled))))
%s
(mutex-lock! m)
(define r (let wait () (if flag 'seen (if (mutex-unlock! m cv 5) (begin (mutex-lock! m) (wait)) 'timeout))))
(write r) (write (thread-join! t))
""" % (rng.choice(["signal", "broadcast"]), hist)
        exp = "seensignalled"
    else:
        ds = rng.sample([0.01, 0.2, 0.5, 1.1, 2.3], 3)
        src = """
(define order '())
(define (sl d) (lambda () (thread-sleep! d) (set! order (cons d order)) d))
(define ths (map (lambda (d) (thread-start! (make-thread (sl d)))) '(%s)))
(for-each thread-join! ths)
(write (reverse order))
""" % " ".join(map(str, ds))
        exp = "(%s)" % " ".join(map(str, sorted(ds)))
    return "timed-" + scen, src, exp, 3


def f_timed_race(rng):
    """a timeout that expires at the very instant of the competing event: the target's last act is a long non-preemptible foreign
    call ((sim-burn us) takes simulated time) that carries the clock past the waiter's deadline, so the scheduler invocation that
    sees the termination / unlock / signal is also the first one that sees the deadline passed. Either outcome of the race is
    legal; what must hold is that it is one of the two, that everybody else (sleepers with later deadlines) still wakes, and that
    the state afterwards is consistent with the reported outcome."""
    spin = rng.choice([0, 3, 40, 400, 3000])
    d = rng.choice([0.05, 0.3, 1])
    burn = int(d * 1000000 * rng.choice([1.5, 3, 20]))
    late = [round(d * k, 3) for k in rng.sample([2, 5, 9, 30], rng.range(1, 3))]
    early = rng.choice([[], [round(d / 7, 4)]])
    tail = rng.choice(["", "(let lp ((j 0)) (if (< j %d) (lp (+ j 1))))" % rng.choice([1, 5, 30])])
    scen = rng.choice(["join", "join", "lock", "cv"])
    sleepers = "(define sl (map (lambda (x) (thread-start! (make-thread (lambda () (thread-sleep! x) x)))) '(%s)))\n" % " ".join(map(str, late + early))
    spinx = "(let lp ((j 0)) (if (< j %d) (lp (+ j 1))))" % spin
    if scen == "join":
        src = sleepers + """
(define t (thread-start! (make-thread (lambda () %s (sim-burn %d) %s 'done))))
(define r (thread-join! t %s 'timed-out))
(write (if (memq r '(done timed-out)) 'one-of-two r))
(write (thread-join! t))
(write (map thread-join! sl))
""" % (spinx, burn, tail, d)
        exp = "one-of-twodone(%s)" % " ".join(map(str, late + early))
    elif scen == "lock":
        src = sleepers + """
(define m (make-mutex))
(mutex-lock! m)
(define t (thread-start! (make-thread (lambda () (let ((r (mutex-lock! m %s))) (let ((own (eq? (mutex-state m) (current-thread)))) (if r (mutex-unlock! m)) (eq? r own)))))))
(thread-yield!)
%s (sim-burn %d) %s
(mutex-unlock! m)
(write (thread-join! t))
(write (mutex-state m))
(write (map thread-join! sl))
""" % (d, spinx, burn, tail)
        exp = "#tnot-abandoned(%s)" % " ".join(map(str, late + early))
    else:
        src = sleepers + """
(define m (make-mutex)) (define cv (make-condition-variable)) (define flag #f)
(define t (thread-start! (make-thread (lambda () %s (mutex-lock! m) (set! flag #t) (sim-burn %d) %s (condition-variable-signal! cv) (mutex-unlock! m) 'signalled))))
(mutex-lock! m)
(define r (if flag 'seen (if (mutex-unlock! m cv %s) 'woken 'timeout)))
(write (if (memq r '(seen woken timeout)) 'one-of-three r))
(write (thread-join! t))
(write (map thread-join! sl))
""" % (spinx, burn, tail, d)
        exp = "one-of-threesignalled(%s)" % " ".join(map(str, late + early))
    return "timed-race-" + scen, src, exp, 3 + len(late) + len(early)


def f_callbacks(rng):
    """threads preempted INSIDE a C->Scheme callback (sort with a Scheme comparator): known finding F1 lives here and only here"""
    t = rng.range(2, 3)
    n = rng.range(5, 12)
    spin = rng.range(0, 60)
    src = """
(define (slow< a b) (let lp ((j 0)) (if (< j %d) (lp (+ j 1)))) (< a b))
(define (work id) (lambda () (sort (map (lambda (i) (modulo (* (+ i id) 7919) 101)) '(%s)) slow<)))
(define ths (map (lambda (id) (thread-start! (make-thread (work id)))) '(%s)))
(write (map thread-join! ths))
""" % (spin, " ".join(map(str, range(n))), " ".join(map(str, range(t))))
    exp = "(" + " ".join("(" + " ".join(map(str, sorted(((i + tid) * 7919) % 101 for i in range(n)))) + ")" for tid in range(t)) + ")"
    return "callbacks", src, exp, t + 1


FAMILIES = [(f_callbacks, 1), (f_mutex_counter, 4), (f_two_locks, 2), (f_condvar_buffer, 4), (f_fork_join, 3), (f_join_states, 2), (f_locals, 3), (f_timed, 4), (f_timed_race, 3), (f_many_waiters, 3)]


def gen_sched(rng, timed, tier="quick", index=0):
    mode = rng.weighted([("ones", 2), ("uniform", 4), ("preempt", 4), ("small", 2), ("sweep", 5 if tier == "thorough" else 0)])
    sched = {"thread_inv": True, "deadlock_check": True, "tick_budget": 6000000, "default_q": 500, "default_clock_step": rng.choice([5, 20, 50])}
    if mode == "sweep":
        # bounded-preemption sweep: the first preemption lands after exactly n instructions (n walks over every instruction index
        # across the cases of a thorough run), followed by 1-2 more tape-chosen short slices; everything else runs at the default quantum
        n = (index * 7919) % 4000 + 1
        tape = [n, rng.choice([1, 1, 2, 5])]
        for _ in range(rng.range(0, 2)):
            tape += [500] * rng.range(0, 3) + [rng.range(1, 30)]
        sched["quantum"] = tape
    elif mode == "ones":
        sched["default_q"] = 1
    elif mode == "small":
        sched["default_q"] = rng.range(2, 20)
    elif mode == "uniform":
        q = rng.choice([3, 10, 50, 500])
        sched["quantum"] = [rng.range(1, q) for _ in range(rng.range(50, 3000))]
        sched["default_q"] = rng.choice([1, 7, 500])
    else:
        # bounded preemption: default-length slices with a few tape-chosen short ones
        n = rng.range(5, 200)
        tape = [500] * n
        for _ in range(rng.range(1, 6)):
            tape[rng.below(n)] = rng.range(1, 40)
        sched["quantum"] = tape
    if not timed or rng.chance(1, 2):
        sched["clock_step"] = [rng.choice([0, 1, 5, 50]) for _ in range(rng.range(0, 400))]
    return sched, mode


def generate(rng, tier, index, seed):
    fam = rng.weighted(FAMILIES)
    name, src, exp, nthreads = fam(rng.fork("prog"))
    sched, mode = gen_sched(rng.fork("sched"), name.startswith("timed"), tier, index)
    gc = {"mode": "none"}
    if rng.chance(1, 4):
        gc = {"mode": "bernoulli", "p1024": rng.choice([1, 8, 64]), "seed": rng.below(1 << 30)}
    case = {"prop": ID, "index": index, "seed": seed, "config": "asan" if rng.chance(1, 12) else "sim",
            "meta": {"family": name, "sched_mode": mode, "nthreads": nthreads},
            "steps": [{"op": "eval", "src": src}], "expect": exp, "sched": sched, "gc": gc}
    return case


_default_cache = {}


def execute(case, run):
    oc = Outcome()
    oc.case = case
    plan = {"id": 1, "steps": case["steps"], "gc": case["gc"], "sched": case["sched"]}
    res = run(case["config"], plan)
    ip = infra_problem(res)
    if ip:
        oc.infra = ip
        return oc
    oc.result = res
    oc.trace = res.get("sw_hash", "") + ":" + res.get("ev_hash", "")
    oc.verdicts = crash_verdicts(res, "thread program")
    fam = case["meta"]["family"]
    if res.get("status") == "ok":
        out = "".join(s["out"] for s in res["steps"])
        exc = [s for s in res["steps"] if s["exc"]]
        exp = case.get("expect")
        if exp is None:
            # schedule independence against the default schedule of the same program
            key = case["config"] + case["steps"][0]["src"]
            base = _default_cache.get(key)
            if base is None:
                bres = run(case["config"], {"id": 0, "steps": case["steps"], "gc": {"mode": "none"},
                                            "sched": {"default_q": 500, "tick_budget": 6000000, "default_clock_step": 10}})
                oc.runs += 1
                base = "".join(s["out"] for s in bres.get("steps", [])) if bres.get("status") == "ok" else None
                _default_cache[key] = base
            exp = base
        if exc:
            oc.verdicts.append(Verdict("thread-error", "top level raised: %s" % exc[0]["res"][:300], {"family": fam}))
        elif exp is not None and out != exp:
            oc.verdicts.append(Verdict("result-mismatch", "family %s: printed %r, sequential specification %r" % (fam, out[-400:], exp[-400:]), {"family": fam}))
    for v in oc.verdicts:
        v.sig["family"] = fam.split("-")[0] if fam.startswith("timed") else fam
    st = res.get("stats", {})
    if st:
        cnt = res.get("counters", {})
        oc.fired = {"short_slices": 0, "forced_collection": st.get("gc_forced", 0), "context_switches": st.get("switches", 0),
                    "clock_sleep_jumps": cnt.get("sleep_calls", 0), "preempted_while_waiting": cnt.get("entry_while_waiting", 0)}
        q = case["sched"].get("quantum", [])
        used = min(len(q), st.get("ticks", 0))
        short = sum(1 for x in q[:used] if x < 500)
        if case["sched"].get("default_q", 500) < 500:
            short += max(0, st.get("ticks", 0) - used)
        oc.fired["short_slices"] = short
        oc.stats = {"sim_us": st.get("sim_us", 0), "ticks": st.get("ticks", 0), "switches": st.get("switches", 0)}
        oc.probes = {k: v for k, v in cnt.items() if k.startswith("preempt_op:")}
        oc.nontrivial = st.get("threads", 0) >= 2 and st.get("switches", 0) >= 10 and short >= 1
    return oc


def sample(case, oc):
    s = case["sched"]
    return {"family": case["meta"]["family"], "sched_mode": case["meta"]["sched_mode"], "quantum_head": s.get("quantum", [])[:30],
            "default_q": s.get("default_q"), "clock_head": s.get("clock_step", [])[:10], "gc": case["gc"],
            "ticks": oc.stats.get("ticks"), "switches": oc.stats.get("switches"), "trace": oc.trace,
            "program_head": case["steps"][0]["src"][:400]}


def shrink(case):
    s = case["sched"]
    q = s.get("quantum", [])
    if q:
        for cand in shrink_list(q, 0):
            if len(cand) < len(q) - 0:
                c = copy.deepcopy(case)
                c["sched"]["quantum"] = cand
                yield c
                if len(q) > 64 and len(cand) > len(q) - 2:
                    break
        # entries toward the default
        for i, v in enumerate(q[:64]):
            if v != 500:
                c = copy.deepcopy(case)
                c["sched"]["quantum"][i] = 500
                yield c
    if s.get("clock_step"):
        c = copy.deepcopy(case)
        c["sched"]["clock_step"] = []
        yield c
    if case["gc"].get("mode") != "none":
        c = copy.deepcopy(case)
        c["gc"] = {"mode": "none"}
        yield c
    if s.get("default_q", 500) not in (500,):
        for v in (500, 50, 7):
            if v > s["default_q"]:
                c = copy.deepcopy(case)
                c["sched"]["default_q"] = v
                yield c


DESIGN_REF = "DESIGN.md section 5, C11"
LEVEL_TEXT = ("Seeded search over schedules: the simulator owns the length of every time slice, the clock and the collection points while the "
              "real scheduler, primitives and Scheme retry loops run unmodified; queue invariants are checked at every scheduler call, a "
              "deadlock detector turns a lost wake-up into a deterministic verdict, and the printed result must equal the sequential "
              "specification. Exploration, because the interleaving space is sampled (bounded-preemption and uniform tapes), not enumerated.")
LEVEL_NOTE = ("Trusts the generator's sequential specifications and that workloads are deadlock-free by construction. Nested C->Scheme "
              "callbacks inside threads are a separate family (known finding F1 lives there). No fairness claims.")
