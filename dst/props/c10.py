"""C10 -- unreachable memory is recycled and the heap stays well-formed."""
import copy

from ..engine import Outcome, Verdict, crash_verdicts, infra_problem, shrink_list

ID = "C10"
RULE = ("case = allocation/drop history over a root table (bursty phases with different size mixes: pairs, vectors up to multi-chunk, "
        "strings with 1-4-byte characters, bytevectors, bignums, flonums, records, closures, continuations, string ports, file ports, "
        "hash tables, thread objects, ephemeron chains with a heap segment added behind them; ramps and a high-volume ramp-only family for the growth bound) + collection points (natural, and forced at tape-chosen allocations) + initial heap size. "
        "After EVERY collection the simulator walks every segment (exact tiling, sorted disjoint free list, clear mark bits, every "
        "reference slot, weak slot and ephemeron value -> start of a live object of this context), checks conservation (bytes surviving the sweep == bytes the mark phase "
        "reached; live+free+sentinels == total) and the growth bound (histories include ramps: a buffer re-allocated slightly larger each round).  Non-trivial: >= 3 collections checked and >= 2000 allocations; "
        "distinct = distinct event-log hashes.")
ASSUMPTIONS = [
    "the type layout table is trusted as the description of which words are references and of object sizes",
    "growth bound constant c=40 over (max measured live + 2 x largest request) is deliberately loose: it only catches unbounded growth, the exact "
    "recycling claim is carried by the conservation check at every collection",
    "fixed-chunk-size heaps and Boehm builds are other configurations, not checked",
]
COMPONENTS = {"real": ["allocator", "mark", "weak reset", "finalizers", "sweep", "heap growth", "VM and libraries producing the objects"],
              "stub": ["collection schedule", "clock"]}
BUDGET = {"quick": {"seconds": 60, "cases": 3000, "min_cases": 80}, "thorough": {"seconds": 1200, "cases": 200000}}
CONFIGS = {
    "sim": {"variant": "sim", "imports": ["(srfi 18)", "(srfi 69)", "(chibi weak)", "(rename (only (chibi) read) (read core-read))"], "timeout_ms": 120000},
    "asan": {"variant": "asan", "imports": ["(srfi 18)", "(srfi 69)", "(chibi weak)", "(rename (only (chibi) read) (read core-read))"], "timeout_ms": 300000},
}
GROWTH_C = 40

PRELUDE = r"""
(define R (make-vector 64 #f))
(define NR 64)
(define (set-roots! n) (set! NR n) (set! R (make-vector n #f)))
(define-record-type node (make-node a b c) node? (a node-a set-node-a!) (b node-b) (c node-c))
(define (mk-list n) (let loop ((i 0) (acc '())) (if (= i n) acc (loop (+ i 1) (cons i acc)))))
(define (mk-string n) (let ((s (make-string n #\a))) (if (> n 2) (begin (string-set! s 1 #\x3bb) (string-set! s (- n 1) #\x1F600))) s))
(define (deep-k d) (if (= d 0) (call/cc (lambda (k) k)) (let ((r (deep-k (- d 1)))) (if (procedure? r) r r))))
(define (mk kind n)
  (case kind
    ((0) (mk-list n))
    ((1) (make-vector n n))
    ((2) (mk-string n))
    ((3) (make-bytevector n 7))
    ((4) (expt 7 (+ n 30)))
    ((5) (* 1.5 n))
    ((6) (make-node n (mk-list (modulo n 7)) (make-vector (modulo n 5) 'x)))
    ((7) (let ((v (make-vector (modulo n 9) n))) (lambda (x) (+ x (vector-length v) n))))
    ((8) (deep-k (modulo n 40)))
    ((9) (let ((o (open-output-string))) (write (mk-list (modulo n 50)) o) o))
    ((10) (let ((t (make-hash-table equal?))) (do ((i 0 (+ i 1))) ((= i (modulo n 60)) t) (hash-table-set! t i (number->string i)))))
    ((11) (make-thread (lambda () n)))
    ((12) (open-input-file "/repo/README.md"))
    ((13) (string->symbol (string-append "sym" (number->string n))))
    ; a chain of ephemerons: the key of each later one is reachable only through the value of the one before; the later ones are
    ; allocated first (lower addresses, scanned first by the collector's fixpoint)
    ((15) (let loop ((i (modulo n 6)) (next-key (list 'last n)) (acc '()))
            (if (< i 0)
                (cons next-key acc)
                (let* ((e (make-ephemeron next-key (vector 'val i n))) (k (list 'key i)))
                  (loop (- i 1) k (cons (make-ephemeron k (list 'holds next-key e)) acc))))))
    (else (cons n n))))
(define (churn kind size count stride start)
  (do ((i 0 (+ i 1)) (s start (modulo (+ s stride) NR))) ((= i count))
    (vector-set! R s (mk kind (+ size (modulo i 3))))))
(define (ramp kind base step n small)
  ; a buffer that is re-allocated a little larger every round (each request exceeds every dead object), small garbage in between
  (do ((i 0 (+ i 1))) ((= i n))
    (vector-set! R 0 (mk kind (+ base (* i step))))
    (churn 14 1 small 1 1)))
(define (drop-burst from step) (do ((i from (+ i step))) ((>= i NR)) (vector-set! R i #f)))
(define (link i j) (vector-set! R i (cons (vector-ref R i) (vector-ref R j))))
(define (count-live) (let loop ((i 0) (c 0)) (if (= i NR) c (loop (+ i 1) (if (vector-ref R i) (+ c 1) c)))))
"""

# (kind, typical sizes)
KINDS = {
    0: [1, 5, 50, 500], 1: [0, 1, 7, 100, 5000, 40000, 150000], 2: [0, 3, 40, 3000, 100000], 3: [0, 1, 33, 4096, 300000],
    4: [1, 40, 400], 5: [1], 6: [3, 20], 7: [2, 9], 8: [0, 5, 39], 9: [5, 49], 10: [3, 59], 11: [1], 12: [1], 13: [1, 100000], 14: [1], 15: [0, 2, 5],
}


def gen_history(rng, tier, scale=1.0):
    """Returns (ops, estimated number of allocations)."""
    ops = []
    nroots = rng.choice([8, 64, 256, 1024])
    ops.append("(set-roots! %d)" % nroots)
    phases = rng.range(2, 6)
    obj_budget = int((150_000 if tier == "quick" else 600_000) * scale)     # objects per history
    byte_budget = int((150_000_000 if tier == "quick" else 600_000_000) * scale)
    est = 0
    # objects allocated per mk call, roughly
    per_obj = {0: None, 6: 12, 8: 4, 9: 60, 10: 130, 12: 3, 15: 40}
    for ph in range(phases):
        mix = rng.sample(sorted(KINDS.keys()), rng.range(1, 4))
        if rng.chance(1, 4):
            kind = rng.choice([1, 2, 3, 1])
            unit = 8 if kind == 1 else 1
            base = rng.choice([300, 2000, 16000, 60000]) * (8 // unit)
            step = rng.choice([1, 1, 3, 64])
            n = rng.choice([200, 1000, 4000])
            n = max(10, min(n, (byte_budget // phases) // (base * unit + 64)))
            small = rng.choice([0, 5, 50, 300])
            n = max(10, min(n, (obj_budget // phases) // (small + 2)))
            est += n * (small + 2)
            ops.append("(ramp %d %d %d %d %d)" % (kind, base, step, n, small))
        for _ in range(rng.range(1, 5)):
            kind = rng.choice(mix)
            size = rng.choice(KINDS[kind])
            objs = size + 1 if kind == 0 else per_obj.get(kind, 1)
            if kind == 8:
                objs = 4 + size
            per_bytes = max(1, size) * 8 + 32
            count = rng.choice([10, 100, 1000, 5000])
            count = max(1, min(count, (obj_budget // (phases * 3)) // max(1, objs), (byte_budget // (phases * 3)) // per_bytes))
            if kind == 12:
                count = min(count, 40)   # file ports: descriptors are a separate resource (C16)
            est += count * max(1, objs)
            ops.append("(churn %d %d %d %d %d)" % (kind, size, count, rng.choice([1, 3, 7]), rng.below(nroots)))
            if kind == 15 and rng.chance(2, 3):
                # one object larger than anything free: a new last heap segment appears behind the live ephemeron chains
                ops.append("(vector-set! R (- NR 1) (make-bytevector %d 1))" % rng.choice([3000000, 9000000, 20000000]))
                ops.append("(sim-gc)")
                if rng.chance(1, 2):
                    ops.append("(vector-set! R (- NR 1) #f)")
            if rng.chance(1, 4):
                ops.append("(link %d %d)" % (rng.below(nroots), rng.below(nroots)))
            if rng.chance(1, 5):
                ops.append("(sim-gc)")
        if rng.chance(1, 3):
            # data with datum labels read by the core reader (which borrows the mark bit as a visited flag), then fresh objects
            # stored into its interior before the next collection
            r1, tag = rng.below(nroots), rng.below(1000)
            ops.append("(vector-set! R %d (core-read (open-input-string \"(#0=(p%d q) #1=#(r #0# s) #1# #0# #2=(t . #2#))\")))" % (r1, tag))
            ops.append("(let ((d (vector-ref R %d))) (set-car! (car d) (make-vector 3 'fresh)) (vector-set! (cadr d) 0 (list 'fresh2 %d)) (set-car! (list-ref d 4) (string-append \"fr\" \"esh\")) 'ok)" % (r1, tag))
            if rng.chance(1, 2):
                ops.append("(sim-gc)")
        ops.append("(drop-burst %d %d)" % (rng.below(3), rng.choice([1, 1, 2, 10])))
        if rng.chance(1, 2):
            ops.append("(sim-gc)")
    ops.append("(drop-burst 0 1)")
    ops.append("(sim-gc)")
    ops.append("(count-live)")
    return ops, est


def gen_ramp_only(rng, tier, index, seed):
    """Unbounded growth is a statement about allocation volume: one long ramp (a buffer re-allocated slightly larger every round
    -- every request exceeds every dead object -- with small garbage in between) pushes 0.4-0.8 GB (thorough: up to 3 GB)
    through a heap whose live data stays at a few hundred KB, under the natural collection schedule."""
    kind = rng.choice([1, 2, 3])
    unit = 8 if kind == 1 else 1
    base_b = rng.choice([4000, 16000, 64000, 200000])
    step = rng.choice([1, 1, 2, 5]) * (8 // unit)
    small = rng.choice([20, 100, 400, 2000])
    volume = rng.choice([400, 600, 800]) * 1000000 if tier == "quick" else rng.choice([800, 1500, 3000]) * 1000000
    # volume ~ n * (base_b + n*step*unit/2 + small*32)
    n = 1
    while n * (base_b + n * step * unit // 2 + small * 32) < volume and n < 2000000:
        n = int(n * 1.3) + 1
    # ... and bounded in allocation count (every allocation passes through the simulator's hooks: about 10^6 per second)
    n = max(10, min(n, (8000000 if tier == "quick" else 25000000) // (small + 2)))
    ops = ["(set-roots! 8)", "(ramp %d %d %d %d %d)" % (kind, base_b // unit, step, n, small), "(drop-burst 0 1)", "(sim-gc)", "(count-live)"]
    steps = [{"op": "eval", "src": PRELUDE}] + [{"op": "eval", "src": o} for o in ops]
    return {"prop": ID, "index": index, "seed": seed, "config": "sim", "meta": {"family": "ramp-only"},
            "steps": steps, "gc": {"mode": "none", "heapcheck_every": 1, "growth_c": GROWTH_C}, "knobs": {}, "sched": {"default_q": 500, "tick_budget": 4000000000}}


def gen_embed_release(rng, tier, index, seed):
    """the embedder's side of reachability: objects built through the C API, registered with sexp_preserve_object, released again with
    sexp_release_object in LIFO / FIFO / mixed order with allocation in between; once released they are unreachable and their memory has to be
    recycled (the simulator checks that none of them is left on the preserved-objects list; the growth bound covers the rest)"""
    script = []
    nkept = 0
    for _ in range(rng.range(10, 120)):
        k = rng.below(10)
        d = rng.below(8)
        if k <= 3:
            script.append(["bigvec", d, rng.choice([10, 200, 3000, 30000]), 0, ""])
            script.append(["keep", 0, d, 0, ""])
            nkept += 1
        elif k <= 5 and nkept:
            script.append([rng.choice(["release", "release", "release0"]), d, 0, 0, ""])
            script.append(["fixnum", d, 0, 0, ""])
            nkept -= 1
        elif k == 6:
            script.append(["churn", 0, rng.range(10, 250), 0, ""])
        elif k == 7:
            script.append(["cons", d, rng.below(8), rng.below(8), ""])
        else:
            script.append(["string", d, 0, 0, "x" * rng.choice([1, 100, 5000])])
    steps = [{"op": "eval", "src": PRELUDE}, {"op": "embed", "script": script, "src": "<embedder script: %d ops>" % len(script)},
             {"op": "eval", "src": "(sim-gc)"}, {"op": "eval", "src": "(count-live)"}]
    mode = rng.choice(["none", "bernoulli"])
    gc = {"mode": mode, "heapcheck_every": 1, "growth_c": GROWTH_C, "max_forced": 300}
    if mode == "bernoulli":
        gc["p1024"] = rng.choice([8, 64])
        gc["seed"] = rng.below(1 << 30)
    return {"prop": ID, "index": index, "seed": seed, "config": "asan" if rng.chance(1, 6) else "sim", "meta": {"family": "embed-release"},
            "steps": steps, "gc": gc, "knobs": {"check_release": True}, "sched": {"default_q": 500, "tick_budget": 50000000}}


def generate(rng, tier, index, seed):
    if rng.chance(1, 10):
        return gen_ramp_only(rng.fork("ramp"), tier, index, seed)
    if rng.chance(1, 10):
        return gen_embed_release(rng.fork("embed"), tier, index, seed)
    variant = "asan" if rng.chance(1, 8) else "sim"
    # the asan variant's 32-byte pad makes first-fit allocation slow (unusable 32-byte chunks pile up): smaller histories there
    ops, est = gen_history(rng.fork("hist"), tier, 0.1 if variant == "asan" else 1.0)
    mode = rng.weighted([("none", 3), ("bernoulli", 3), ("points", 2), ("aftergrow", 2)])
    gc = {"mode": mode, "heapcheck_every": 1, "growth_c": GROWTH_C, "max_forced": 150 if variant == "asan" else 400}
    if mode == "bernoulli":
        gc["p1024"] = max(1, min(rng.choice([1, 2, 8, 64]), 250 * 1024 // max(1, est)))
        gc["seed"] = rng.below(1 << 30)
    elif mode == "points":
        gc["points"] = sorted(set(rng.below(max(100, est)) for _ in range(rng.range(1, 60))))
    knobs = {}
    if rng.chance(1, 4) and variant == "sim":
        # any size an embedder may pass, not only multiples of the heap alignment unit
        base = rng.choice([0, 64 * 1024, 512 * 1024, 1024 * 1024, 8 * 1024 * 1024, 50000, 300000])
        knobs = {"fresh_ctx": True, "heap": base + (rng.choice([0, 0, 1, 8, 17, 24, 31]) if base else 0),
                 "imports": ["(srfi 18)", "(srfi 69)", "(chibi weak)", "(rename (only (chibi) read) (read core-read))"], "prepad": rng.choice([0, 4096, 1 << 20])}
    steps = [{"op": "eval", "src": PRELUDE}] + [{"op": "eval", "src": o} for o in ops]
    return {"prop": ID, "index": index, "seed": seed, "config": variant, "meta": {"family": "history-" + mode + ("-fresh" if knobs else "")},
            "steps": steps, "gc": gc, "knobs": knobs, "sched": {"default_q": 500, "tick_budget": 50000000}}


def execute(case, run):
    oc = Outcome()
    oc.case = case
    plan = {"id": 1, "steps": case["steps"], "gc": case["gc"], "knobs": case["knobs"], "sched": case["sched"]}
    res = run(case["config"], plan)
    ip = infra_problem(res)
    if ip:
        oc.infra = ip
        return oc
    oc.result = res
    oc.trace = res.get("ev_hash", "") or res.get("status", "")
    oc.verdicts = crash_verdicts(res, "history")
    if res.get("status") == "ok":
        st = res["stats"]
        steps = res["steps"]
        for i, s in enumerate(steps):
            if s["exc"]:
                oc.verdicts.append(Verdict("op-error", "operation %d %r failed: %s" % (i, case["steps"][i]["src"][:80], s["res"][:200]), {}))
                break
        if steps and not steps[-1]["exc"] and steps[-1]["res"] != "0" and len(steps) == len(case["steps"]):
            oc.verdicts.append(Verdict("model-mismatch:count-live", "after dropping every root, count-live = %s" % steps[-1]["res"], {}))
        oc.fired = {"forced_collection": st["gc_forced"], "natural_collection": st["gc_natural"],
                    "heap_growth": res.get("counters", {}).get("heap_segments_created", 0)}
        oc.stats = {"sim_us": st["sim_us"], "allocs": st["allocs"], "alloc_bytes": st["alloc_bytes"], "heapchecks": st["heapchecks"]}
        if st["live_max"]:
            oc.maxima = {"heap_total_over_max_live": round(st["heap_max"] / st["live_max"], 2),
                         "heap_total_over_bound_operand": round(st["heap_max"] / max(1, st["live_max"] + 2 * st["largest_req"]), 2)}
        oc.nontrivial = st["heapchecks"] >= 3 and st["allocs"] >= 2000
    return oc


def sample(case, oc):
    return {"config": case["config"], "gc": case["gc"], "knobs": case["knobs"], "ops": [s["src"] for s in case["steps"][1:]][:40],
            "allocs": oc.stats.get("allocs"), "collections_checked": oc.stats.get("heapchecks"), "trace": oc.trace}


def shrink(case):
    steps = case["steps"]
    body = steps[1:]
    for cand in shrink_list(body, 1):
        c = copy.deepcopy(case)
        c["steps"] = [steps[0]] + cand
        yield c
    gc = case["gc"]
    if gc.get("mode") == "points":
        for pts in shrink_list(gc["points"], 0):
            c = copy.deepcopy(case)
            c["gc"]["points"] = pts
            yield c
    elif gc.get("mode") != "none":
        c = copy.deepcopy(case)
        c["gc"] = {"mode": "none", "heapcheck_every": 1, "growth_c": gc.get("growth_c", GROWTH_C)}
        yield c
    if case["knobs"]:
        c = copy.deepcopy(case)
        c["knobs"] = {}
        yield c


DESIGN_REF = "DESIGN.md section 5, C10"
LEVEL_TEXT = ("Seeded search over allocation/drop histories x collection points x heap sizes, with a simulator-side heap walker run after "
              "every collection (tiling, free-list order, mark bits, slot targets, conservation mark-vs-sweep, accounting, growth bound). "
              "Exploration: histories and collection points are sampled, the invariant is checked exhaustively on every heap state reached.")
LEVEL_NOTE = ("Trusts the type layout table (sizes, reference slots) and the walker (simulator code over sexp.h macros). Growth bound is loose "
              "(c=40) by design; exact recycling is asserted by conservation at every collection.")
