"""C19 -- codec libraries invert each other and are total on hostile input (stream / corruption part)."""
import base64
import copy
import csv
import io
import json
import quopri
import struct
import urllib.parse

from .. import streams as st
from ..common import scm_str
from ..engine import Outcome, Verdict, crash_verdicts, infra_problem, shrink_list

ID = "C19"
RULE = ("case = (codec family, value, delivery schedules, optional corruption). Families: base64 port-to-port encode and decode over binary "
        "streams (every length mod 3, 0-4096 bytes; half of the decode texts carry bytes a decoder skips: isolated line ends / blanks or wrapping at a drawn column), JSON read from a stream (depth <= 8, every escape, surrogate pairs, exponents) and "
        "json-write back, CSV read/write with quoting, quoted-printable encode/decode, bytevector numeric accessors applied to bytes read "
        "from a binary stream at offsets len-size .. len+1 in both endiannesses. World: chunk tapes over three port kinds (incl. "
        "would-block), small-buffer variant, forced collections; fault batch: the stored bytes are truncated / torn / bit-flipped / have "
        "bytes dropped, inserted or a block duplicated. No-fault oracle: independent Python codecs (base64, json, csv, quopri, struct) "
        "decide the expected output for every schedule; fault oracle: value or error object, within the tick budget, memory safe "
        "(ASan red zones), and the context still evaluates (+ 1 2). Non-trivial: >= 16 stored bytes and >= 1 short transfer/would-block "
        "fired (no-fault) or the corruption actually changed the bytes (fault); distinct = event-log hash.")
ASSUMPTIONS = [
    "input classes (lengths mod 3/4, escapes, surrogates, numeric limits) are sampled, not enumerated",
    "Python's base64/json/csv/quopri/struct/urllib.parse are the trusted reference codecs",
    "URI escaping is a pure string function with no port interface; it is driven on text that arrives over a simulated stream (the way "
    "request lines and query strings do) and judged against urllib.parse (RFC 3986: non-ASCII characters are escaped as their UTF-8 bytes; "
    "hex digit case is not compared)",
    "encoder output rules are checked by decoding it with the reference codec and, for base64, byte equality with the reference encoder",
    "JSON numbers: chibi's codec represents integers beyond the fixnum range as doubles by design (json.c converts bignums with sexp_bignum_to_double "
    "and reads long digit strings with strtod, as JavaScript does; RFC 8259 section 6 allows it); such integers are compared after rounding to double, "
    "all others exactly",
    "UTF-16/UTF-32 conversion in (scheme bytevector) is not among the codecs the property lists and is not driven "
    "(utf16->string mis-decodes surrogate pairs on the unchanged tree: a uint16_t holds the combined code point; noted in DESIGN.md, out of scope)",
]
COMPONENTS = {"real": ["lib/chibi/base64.scm (streaming encode/decode)", "lib/chibi/json.c reader/writer", "lib/chibi/csv.scm", "lib/chibi/quoted-printable.scm",
                       "(scheme bytevector) accessors (bytevector.stub)", "lib/chibi/uri.scm uri-encode / uri-decode", "lib/srfi/160/uvprims.stub accessors", "read-bytevector!/read-string/port buffering", "collector"],
              "stub": ["byte delivery schedule", "stored-byte corruption", "collection schedule", "clock"]}
BUDGET = {"quick": {"seconds": 55, "cases": 8000, "min_cases": 300}, "thorough": {"seconds": 1200, "cases": 600000}}
IMPORTS = ["(srfi 18)", "(chibi io)", "(chibi base64)", "(chibi json)", "(chibi csv)", "(chibi quoted-printable)", "(scheme bytevector)", "(chibi uri)", "(srfi 160 base)"]
CONFIGS = {
    "sim": {"variant": "sim", "imports": IMPORTS, "timeout_ms": 60000},
    "tiny": {"variant": "tiny", "imports": IMPORTS, "timeout_ms": 60000},
    "asan": {"variant": "asan", "imports": IMPORTS, "timeout_ms": 180000},
}
PRELUDE = st.SCHEME_PRELUDE + r"""
(define (guarded thunk) (call/cc (lambda (k) (with-exception-handler (lambda (e) (k 'error-object)) thunk))))
(define (bv->list b) (let loop ((i (- (bytevector-length b) 1)) (acc '())) (if (< i 0) acc (loop (- i 1) (cons (bytevector-u8-ref b i) acc)))))
(define (slurp-bytes p) (let ((o (open-output-bytevector))) (let loop ((b (read-u8 p))) (if (eof-object? b) (get-output-bytevector o) (begin (write-u8 b o) (loop (read-u8 p)))))))
"""


def rbytes(rng, n):
    mode = rng.below(4)
    if mode == 0:
        return bytes(rng.below(256) for _ in range(n))
    if mode == 1:
        return bytes([rng.choice([0, 0xff, 0x3d, 0x0a, 0x0d, 0x2b, 0x2f])] * n)
    if mode == 2:
        return bytes(rng.range(0x20, 0x7e) for _ in range(n))
    return bytes((i * 37 + 11) % 256 for i in range(n))


def gen_json(rng, depth):
    if depth <= 0 or rng.chance(3, 10):
        k = rng.below(8)
        if k == 0:
            return rng.choice([0, 1, -1, 42, (1 << 53), -(1 << 40), 12345678901234567890])
        if k == 1:
            if rng.chance(1, 2):
                # any finite double: both signs, all digit counts and exponent widths
                while True:
                    f = struct.unpack("<d", struct.pack("<Q", rng.below(1 << 64)))[0]
                    if f == f and f not in (float("inf"), float("-inf")):
                        return f
            return rng.choice([1.5, -0.25, 1e21, 1e-7, 3.141592653589793, 1.7976931348623157e308, 5e-324, 123456789.125, -2.5e-3,
                               -1.2345678901234567e-300, -9.87654321098765e+250, 2.2250738585072014e-308])
        if k == 2:
            return rng.choice([True, False, None])
        n = rng.range(0, 12)
        return "".join(chr(rng.weighted([(rng.range(0x20, 0x7e), 6), (rng.choice([0x22, 0x5c, 0x2f, 0x08, 0x0c, 0x0a, 0x0d, 0x09]), 3), (rng.range(0x80, 0x7ff), 1),
                                         (rng.range(0x800, 0xd7ff), 1), (rng.range(0x10000, 0x10ffff), 1), (0x7f, 1), (1, 1)])) for _ in range(n))
    if rng.chance(1, 2):
        return [gen_json(rng, depth - 1) for _ in range(rng.range(0, 5))]
    return {"k%d%s" % (i, rng.choice(["", "é", " x"])): gen_json(rng, depth - 1) for i in range(rng.range(0, 5))}


def gen_csv(rng):
    rows = []
    ncol = rng.range(1, 5)
    for _ in range(rng.range(1, 8)):
        row = []
        for _ in range(ncol):
            k = rng.below(5)
            if k == 0:
                row.append(str(rng.range(-1000, 1000)))
            elif k == 1:
                row.append("".join(rng.choice(["a", "b", " ", ",", '"', "é", "x"]) for _ in range(rng.range(1, 8))))
            elif k == 2:
                row.append("plain%d" % rng.below(100))
            elif k == 3:
                row.append('he said "hi", twice')
            else:
                row.append("z")
        rows.append(row)
    return rows


def corrupt(data, spec):
    if not data:
        return data
    pos = (spec["pos"] * len(data)) >> 20
    k = spec["kind"]
    b = bytearray(data)
    if k == "truncate":
        return bytes(b[:pos])
    if k == "torn":
        return bytes(b[:pos] + bytes(len(b) - pos))
    if k == "flip":
        b[pos] ^= 1 << (spec["arg"] % 8)
        return bytes(b)
    if k == "drop":
        del b[pos]
        return bytes(b)
    if k == "insert":
        b.insert(pos, spec["arg"])
        return bytes(b)
    return bytes(b[:pos] + b[max(0, pos - 7):])


def generate(rng, tier, index, seed):
    fam = rng.weighted([("b64-encode", 3), ("b64-decode", 3), ("json", 5), ("csv", 3), ("qp", 2), ("accessors", 3), ("uri", 2), ("uvector", 2)])
    fault = rng.chance(1, 3) and fam != "b64-encode"
    cfg = rng.weighted([("sim", 4), ("tiny", 4), ("asan", 2)])
    kind = rng.choice(["cookie", "fd", "custom"])
    vr = rng.fork("value")
    meta = {"family": fam + ("-fault" if fault else "") + "-" + cfg}
    case = {"prop": ID, "index": index, "seed": seed, "config": cfg, "fam": fam, "fault": fault, "kind": kind, "meta": meta,
            "gc": rng.choice([{"mode": "none"}, {"mode": "none"}, {"mode": "bernoulli", "p1024": rng.choice([8, 64]), "seed": rng.below(1 << 30), "max_forced": 300}]),
            "sched": {"default_q": rng.choice([500, 50, 7]), "tick_budget": 60000000, "default_clock_step": 20}}
    if fam in ("b64-encode", "b64-decode"):
        # lengths: short, medium, and within +-4 of small multiples of every block size in play (port buffers 128/4096, the
        # codec's own encode block 2223 = 3/4 * its decode block 2964), so that padding / partial groups meet block edges
        edge = max(0, vr.range(1, 3) * vr.choice([128, 1024, 2223, 2223, 2964, 4096]) + vr.range(-4, 4))
        n = vr.weighted([(vr.range(0, 12), 4), (vr.range(13, 300), 3), (edge, 4), (vr.range(3000, 4096), 1)])
        case["raw"] = rbytes(vr, n).hex()
        if fam == "b64-decode" and vr.chance(1, 2):
            # bytes outside the alphabet that a decoder skips (line ends, blanks): isolated ones at drawn places, or wrapping at a drawn
            # column -- they shift where the 4-character groups fall relative to the streaming decoder's own block, so that a block
            # ends with 1, 2 or 3 characters of a group carried over to the next one
            m = (n + 2) // 3 * 4
            if vr.chance(1, 2):
                case["junk"] = [[vr.range(0, m), vr.choice([10, 10, 13, 32])] for _ in range(vr.choice([1, 1, 2, 3, 5, 6, 7]))]
            else:
                w, eol = vr.choice([76, 64, 60, vr.range(1, 90)]), vr.choice([[10], [13, 10]])
                case["junk"] = [[i, b] for i in range(w, m + 1, w) for b in eol][:4000]
    elif fam == "json":
        case["json"] = json.dumps(gen_json(vr, vr.range(1, 8)), ensure_ascii=vr.chance(1, 2))
    elif fam == "csv":
        case["rows"] = gen_csv(vr)
    elif fam == "qp":
        case["raw"] = rbytes(vr, vr.range(0, 300)).hex()
    elif fam == "uvector":
        tag = vr.choice(["s8", "u16", "s16", "u32", "s32", "u64", "s64", "f32", "f64"])
        vals = []
        if tag[0] in "su":
            bits = int(tag[1:])
            lo, hi = (-(1 << (bits - 1)), (1 << (bits - 1)) - 1) if tag[0] == "s" else (0, (1 << bits) - 1)
            for _ in range(vr.range(1, 8)):
                vals.append(vr.weighted([(vr.choice([lo, hi, lo - 1, hi + 1, lo + 1, hi - 1, 0, -1, 1, hi + 2, 2 * hi + 2, lo * 2]), 3), (vr.range(lo, hi), 3), (vr.range(-(1 << 70), 1 << 70), 1)]))
        elif tag == "f64":
            # any double; judged by eqv? against the very object that was stored (the decimal reader is not part of this family)
            for _ in range(vr.range(1, 8)):
                vals.append(vr.weighted([(struct.unpack("<d", struct.pack("<Q", vr.below(1 << 64)))[0], 3), (vr.choice([0.0, -0.0, 1.5, float("inf"), float("-inf"), 5e-324, 1.7976931348623157e308]), 2)]))
        else:
            # f32: doubles with a short exact decimal form (m * 2^k, m < 2^24 or wider so that rounding to single is exercised), overflow, infinities
            for _ in range(vr.range(1, 8)):
                m = vr.choice([vr.below(1 << 24), vr.below(1 << 30), (1 << 24) + 1, (1 << 25) + 2, 1, 0])
                vals.append(vr.weighted([(float(m * (1 << vr.range(0, 40))) / 64.0 * vr.choice([1, -1]), 4), (vr.choice([0.0, -0.0, 3.5e38, 1e300, -1e300, float("inf"), float("-inf"), 65504.0]), 2)]))
        case["uv"] = {"tag": tag, "vals": [repr(v) if isinstance(v, float) else v for v in vals], "len": vr.range(1, 6), "bad_index": vr.choice([-1, None, None, 1 << 62])}
    elif fam == "uri":
        n = vr.weighted([(vr.range(0, 8), 2), (vr.range(9, 80), 3), (vr.range(120, 140), 1)])
        case["text"] = "".join(chr(vr.weighted([(vr.range(0x61, 0x7a), 5), (vr.range(0x20, 0x7e), 5), (vr.choice([0x25, 0x2b, 0x20, 0x26, 0x3d, 0x2f, 0x3f, 0x23, 0x7e, 0x27]), 3),
                                                (vr.range(0x80, 0xff), 2), (vr.range(0x100, 0x7ff), 2), (vr.range(0x800, 0xd7ff), 1), (vr.range(0xe000, 0xffff), 1),
                                                (vr.range(0x10000, 0x10ffff), 1), (vr.range(1, 0x1f), 1)])) for _ in range(n))
        case["plus"] = vr.chance(1, 3)
    else:
        n = vr.range(1, 40)
        case["raw"] = rbytes(vr, n).hex()
        size = vr.choice([2, 4, 8])
        case["acc"] = {"size": size, "signed": vr.chance(1, 2), "float": size >= 4 and vr.chance(1, 4), "big": vr.chance(1, 2),
                       "offsets": sorted(set([0, max(0, n - size - 1), max(0, n - size), n - size + 1, n - 1, n, n + 1, vr.range(0, n)]))}
    if fault:
        case["corrupt"] = {"kind": rng.choice(["truncate", "torn", "flip", "drop", "insert", "dup"]), "pos": rng.below(1 << 20), "arg": rng.below(256)}
    case["chunk_seed"] = rng.below(1 << 30)
    return case


def stored_bytes(case):
    fam = case["fam"]
    if fam == "b64-encode":
        return bytes.fromhex(case["raw"])
    if fam == "b64-decode":
        enc = bytearray(base64.b64encode(bytes.fromhex(case["raw"])))
        # skipped bytes are inserted from the back so that the positions refer to the clean text
        for pos, b in reversed(sorted(case.get("junk", []), key=lambda x: x[0])):
            enc.insert(min(pos, len(enc)), b)
        return bytes(enc)
    if fam == "json":
        return case["json"].encode("utf-8")
    if fam == "csv":
        o = io.StringIO()
        csv.writer(o, lineterminator="\n").writerows(case["rows"])
        return o.getvalue().encode("utf-8")
    if fam == "qp":
        return quopri.encodestring(bytes.fromhex(case["raw"]))
    if fam == "uvector":
        return ("(" + " ".join(scm_num(v) for v in case["uv"]["vals"]) + ")").encode("ascii")
    if fam == "uri":
        # fault batch: the stored text is a (reference) encoding, which is then corrupted and handed to the decoder
        return uri_ref(case).encode("ascii") if case["fault"] else case["text"].encode("utf-8")
    return bytes.fromhex(case["raw"])


def scm_num(v):
    if isinstance(v, str):   # repr of a float
        f = float(v)
        if f != f:
            return "+nan.0"
        if f in (float("inf"), float("-inf")):
            return "+inf.0" if f > 0 else "-inf.0"
        return v if ("." in v or "e" in v) else v + ".0"
    return str(v)


def uri_ref(case):
    q = urllib.parse.quote_plus if case.get("plus") else urllib.parse.quote
    return q(case["text"], safe="!*'()")


def plan_of(case, data, chunks):
    fam = case["fam"]
    steps = [{"op": "eval", "src": PRELUDE}]
    streams = {"i": st.stream(case["kind"], "in", data, chunks)}
    if fam == "b64-encode":
        steps.append({"op": "eval", "src": "(guarded (lambda () (let ((o (open-output-bytevector))) (base64-encode (open-sim-binary-input \"i\") o) (write-string (utf8->string (get-output-bytevector o))) 'ok)))"})
    elif fam == "b64-decode":
        steps.append({"op": "eval", "src": "(guarded (lambda () (let ((o (open-output-bytevector))) (base64-decode (open-sim-binary-input \"i\") o) (bv->list (get-output-bytevector o)))))"})
    elif fam == "json":
        steps.append({"op": "eval", "src": "(define v (guarded (lambda () (list (json-read (open-sim-input \"i\")))))) (if (pair? v) 'ok v)"})
        steps.append({"op": "eval", "src": "(if (pair? v) (guarded (lambda () (json-write (car v) (current-output-port)) 'ok)) 'skipped)"})
    elif fam == "csv":
        steps.append({"op": "eval", "src": "(define v (guarded (lambda () (list (csv->list (csv-read->list) (open-sim-input \"i\")))))) (if (pair? v) 'ok v)"})
        steps.append({"op": "eval", "src": "(if (pair? v) (guarded (lambda () (for-each (lambda (row) ((csv-writer) row (current-output-port))) (car v)) 'ok)) 'skipped)"})
    elif fam == "qp":
        steps.append({"op": "eval", "src": "(guarded (lambda () (let ((s (slurp-chars (open-sim-input \"i\")))) (bv->list (quoted-printable-decode-bytevector (string->utf8 s))))))"})
        steps.append({"op": "eval", "src": "(guarded (lambda () (write-string (quoted-printable-encode-string (utf8->string (bytevector %s)))) 'ok))" % " ".join(str(b) for b in bytes.fromhex(case["raw"]) if b < 0x80)})
    elif fam == "uvector":
        u = case["uv"]
        t = u["tag"]
        steps.append({"op": "eval", "src": "(define vals (guarded (lambda () (read (open-sim-input \"i\"))))) (define uv (make-%svector %d)) (if (pair? vals) (length vals) vals)" % (t, u["len"])})
        # every value: store at a tape-chosen index and read it back (value or error object, never a different value)
        steps.append({"op": "eval", "src": "(if (pair? vals) (let loop ((l vals) (i 0) (acc '())) (if (null? l) (reverse acc) (loop (cdr l) (+ i 1) (cons (guarded (lambda () (%svector-set! uv (modulo i %d) (car l)) (%s (car l) (%svector-ref uv (modulo i %d))))) acc)))) 'skipped)" % (t, u["len"], "eqv?" if t == "f64" else "begin", t, u["len"])})
        steps.append({"op": "eval", "src": "(list (guarded (lambda () (%svector-ref uv %d))) (guarded (lambda () (%svector-set! uv %d 0) 'stored)) (%svector-length uv))" % (t, u["len"], t, u["bad_index"] if u["bad_index"] is not None else u["len"], t)})
    elif fam == "uri":
        plus = "#t" if case["plus"] else "#f"
        if case["fault"]:
            # (a corrupted byte may make the stored text invalid UTF-8: reading it then signals an error, which is an allowed outcome)
            steps.append({"op": "eval", "src": "(define s (guarded (lambda () (slurp-chars (open-sim-input \"i\"))))) (if (string? s) (string-length s) s)"})
            steps.append({"op": "eval", "src": "(if (string? s) (guarded (lambda () (string? (uri-decode s %s)))) 'skipped)" % plus})
        else:
            steps.append({"op": "eval", "src": "(define s (slurp-chars (open-sim-input \"i\"))) (string-length s)"})
            steps.append({"op": "eval", "src": "(guarded (lambda () (write-string (uri-encode s %s)) 'ok))" % plus})
            steps.append({"op": "eval", "src": "(guarded (lambda () (let ((d (uri-decode (uri-encode s %s) %s))) (list (string=? d s) (string-length d)))))" % (plus, plus)})
            steps.append({"op": "eval", "src": "(guarded (lambda () (let ((d (uri-decode \"%s\" %s))) (list (string=? d s) (string-length d)))))" % (uri_ref(case), plus)})
    else:
        a = case["acc"]
        end = "(endianness big)" if a["big"] else "(endianness little)"
        if a["float"]:
            ref = "bytevector-ieee-%s-ref" % ("single" if a["size"] == 4 else "double")
        else:
            ref = "bytevector-%s%d-ref" % ("s" if a["signed"] else "u", a["size"] * 8)
        steps.append({"op": "eval", "src": "(define bv (slurp-bytes (open-sim-binary-input \"i\"))) (bytevector-length bv)"})
        for off in a["offsets"]:
            steps.append({"op": "eval", "src": "(guarded (lambda () (%s bv %d %s)))" % (ref, off, end)})
    steps.append({"op": "eval", "src": "(+ 1 2)"})
    return {"id": 1, "steps": steps, "gc": case["gc"], "sched": case["sched"], "streams": streams}


def json_equal(a, b):
    if isinstance(a, float) or isinstance(b, float):
        try:
            return float(a) == float(b)
        except (TypeError, ValueError, OverflowError):
            return False
    if isinstance(a, dict) and isinstance(b, dict):
        return a.keys() == b.keys() and all(json_equal(a[k], b[k]) for k in a)
    if isinstance(a, list) and isinstance(b, list):
        return len(a) == len(b) and all(json_equal(x, y) for x, y in zip(a, b))
    return type(a) == type(b) and a == b


def execute(case, run):
    from ..common import Rng
    oc = Outcome()
    oc.case = case
    fam = case["fam"]
    data0 = stored_bytes(case)
    data = corrupt(data0, case["corrupt"]) if case["fault"] else data0
    chunks = case.get("chunks")
    if chunks is None:
        chunks = st.gen_chunks(Rng(case["chunk_seed"]), case["kind"], "in", len(data) + 2)
        case = dict(case)
        case["chunks"] = chunks
        oc.case = case
    res = run(case["config"], plan_of(case, data, chunks))
    ip = infra_problem(res)
    if ip:
        oc.infra = ip
        return oc
    oc.result = res
    oc.trace = res.get("ev_hash", "") or res.get("status", "")
    V = oc.verdicts
    V += crash_verdicts(res, fam)
    if res.get("status") != "ok":
        return oc
    steps = res["steps"]
    if steps[0]["exc"]:
        V.append(Verdict("setup-error", steps[0]["res"][:300], {}))
        return oc
    for i, s in enumerate(steps[1:], 1):
        if s["exc"]:
            V.append(Verdict("escaped-error", "step %d left the guarded region with %s" % (i, s["res"][:200]), {"fam": fam}))
    if steps[-1]["res"] != "3":
        V.append(Verdict("context-unusable", "(+ 1 2) after the run gave %s" % steps[-1]["res"][:100], {"fam": fam}))
    fault = case["fault"]
    if not fault and not V:
        r = steps[1]
        if fam == "b64-encode":
            want = base64.b64encode(data0).decode()
            if r["res"] != "ok" or r["out"] != want:
                V.append(Verdict("codec-mismatch:base64-encode", "%d bytes: chibi %r... reference %r... (result %s)" % (len(data0), r["out"][:60], want[:60], r["res"][:60]),
                                 {"fam": fam, "short_input": r["out"] != want and want.startswith(r["out"].rstrip("="))}))
        elif fam == "b64-decode":
            want = "(" + " ".join(str(b) for b in bytes.fromhex(case["raw"])) + ")"
            if r["res"] != want:
                V.append(Verdict("codec-mismatch:base64-decode", "decode of %d text bytes gave %s..., expected %s..." % (len(data0), r["res"][:80], want[:80]), {"fam": fam}))
        elif fam == "json":
            want = json.loads(case["json"])
            if r["res"] != "ok" or steps[2]["res"] != "ok":
                V.append(Verdict("codec-mismatch:json-read", "json-read/json-write of valid JSON failed: %s / %s; text %r" % (r["res"][:80], steps[2]["res"][:80], case["json"][:120]), {"fam": fam}))
            else:
                try:
                    got = json.loads(steps[2]["out"].encode("latin-1").decode("utf-8"))
                    ok = json_equal(got, want)
                except (ValueError, UnicodeDecodeError) as e:
                    ok = False
                    got = "unparseable: %s" % e
                if not ok:
                    V.append(Verdict("codec-mismatch:json-roundtrip", "json-write(json-read(text)) = %r..., text %r..." % (steps[2]["out"][:160], case["json"][:160]), {"fam": fam}))
        elif fam == "csv":
            if r["res"] != "ok" or steps[2]["res"] != "ok":
                V.append(Verdict("codec-mismatch:csv-read", "csv read/write failed: %s / %s" % (r["res"][:80], steps[2]["res"][:80]), {"fam": fam}))
            else:
                text = steps[2]["out"].encode("latin-1").decode("utf-8", "replace")
                got = list(csv.reader(io.StringIO(text)))
                if got != case["rows"]:
                    V.append(Verdict("codec-mismatch:csv-roundtrip", "rows %r... came back as %r..." % (case["rows"][:3], got[:3]), {"fam": fam}))
        elif fam == "qp":
            want = "(" + " ".join(str(b) for b in bytes.fromhex(case["raw"])) + ")"
            if r["res"] != want:
                V.append(Verdict("codec-mismatch:qp-decode", "quoted-printable decode gave %s..., expected %s..." % (r["res"][:80], want[:80]), {"fam": fam}))
            enc = steps[2]["out"].encode("latin-1")
            ascii_part = bytes(b for b in bytes.fromhex(case["raw"]) if b < 0x80)
            if steps[2]["res"] == "ok" and quopri.decodestring(enc) != ascii_part:
                V.append(Verdict("codec-mismatch:qp-encode", "reference decoder reads chibi's encoding %r... as %r..., original %r..." % (enc[:60], quopri.decodestring(enc)[:40], ascii_part[:40]), {"fam": fam}))
        elif fam == "uvector":
            u = case["uv"]
            t = u["tag"]
            got = steps[2]["res"].strip("()").split()
            if r["res"] != str(len(u["vals"])) or len(got) != len(u["vals"]):
                V.append(Verdict("codec-mismatch:read-values", "read %s values from the stream, stored %d; results %s" % (r["res"], len(u["vals"]), steps[2]["res"][:80]), {"fam": fam}))
            else:
                for v, g in zip(u["vals"], got):
                    if t[0] in "su":
                        bits = int(t[1:])
                        lo, hi = (-(1 << (bits - 1)), (1 << (bits - 1)) - 1) if t[0] == "s" else (0, (1 << bits) - 1)
                        want = str(v) if lo <= v <= hi else "error-object"
                        ok = g == want
                    elif t == "f64":
                        want = "#t"
                        ok = g == "#t"
                    else:
                        f = float(v)
                        if t == "f32":
                            try:
                                f = struct.unpack("<f", struct.pack("<f", f))[0]
                            except OverflowError:
                                f = float("inf") if f > 0 else float("-inf")
                        want = scm_num(repr(f))
                        try:
                            gf = float(g.replace("+inf.0", "inf").replace("-inf.0", "-inf").replace("+nan.0", "nan").replace("-nan.0", "nan"))
                            ok = (gf == f and (gf != 0 or struct.pack("<d", gf) == struct.pack("<d", f))) or (gf != gf and f != f)
                        except ValueError:
                            ok = False
                    if not ok:
                        V.append(Verdict("codec-mismatch:uvector", "%svector-set! of %s then -ref gave %s, expected %s" % (t, scm_num(v), g[:40], want), {"fam": fam, "tag": t, "in_range": want != "error-object"}))
                        break
                if not V and steps[3]["res"] != "(error-object error-object %d)" % u["len"]:
                    V.append(Verdict("accessor-out-of-range", "%svector of length %d: ref at the length / set! at %s / length gave %s" % (t, u["len"], u["bad_index"], steps[3]["res"][:80]), {"fam": fam}))
        elif fam == "uri":
            text = case["text"]
            n = len(text)
            enc = steps[2]["out"]
            allowed = set("ABCDEFGHIJKLMNOPQRSTUVWXYZabcdefghijklmnopqrstuvwxyz0123456789-_.!~*'()%" + ("+" if case["plus"] else ""))
            unq = urllib.parse.unquote_to_bytes(enc.replace("+", " ") if case["plus"] else enc) if all(c in allowed for c in enc) else None
            sig = {"fam": fam, "non_ascii": any(ord(c) > 0x7f for c in text), "above_ff": any(ord(c) > 0xff for c in text)}
            if r["res"] != str(n):
                V.append(Verdict("codec-mismatch:read-text", "read %s characters from the stream, stored %d" % (r["res"], n), {"fam": fam}))
            elif steps[2]["res"] != "ok" or unq != text.encode("utf-8"):
                V.append(Verdict("codec-mismatch:uri-encode", "uri-encode of %r gave %r (reference %r): %s" % (text[:40], enc[:80], uri_ref(case)[:80],
                                 "characters outside the URI alphabet" if unq is None else "a reference decoder reads it back as %r" % unq[:40]), sig))
            elif steps[3]["res"] != "(#t %d)" % n:
                V.append(Verdict("codec-mismatch:uri-roundtrip", "uri-decode(uri-encode(%r)) -> %s, expected (#t %d)" % (text[:40], steps[3]["res"][:60], n), sig))
            elif steps[4]["res"] != "(#t %d)" % n:
                V.append(Verdict("codec-mismatch:uri-decode", "uri-decode of the reference encoding %r of %r -> %s, expected (#t %d)" % (uri_ref(case)[:80], text[:40], steps[4]["res"][:60], n), sig))
        else:
            a = case["acc"]
            n = len(data0)
            if r["res"] != str(n):
                V.append(Verdict("codec-mismatch:read-bytes", "read %s bytes from the stream, stored %d" % (r["res"], n), {"fam": fam}))
            else:
                for off, s in zip(a["offsets"], steps[2:-1]):
                    inside = 0 <= off and off + a["size"] <= n
                    if not inside:
                        if s["res"] != "error-object":
                            V.append(Verdict("accessor-out-of-range", "offset %d size %d in a %d-byte vector returned %s instead of an error" % (off, a["size"], n, s["res"][:60]), {"fam": fam}))
                        continue
                    chunk = data0[off:off + a["size"]]
                    endc = ">" if a["big"] else "<"
                    if a["float"]:
                        val = struct.unpack(endc + ("f" if a["size"] == 4 else "d"), chunk)[0]
                        try:
                            gotv = float(s["res"].replace("+inf.0", "inf").replace("-inf.0", "-inf").replace("+nan.0", "nan").replace("-nan.0", "nan"))
                            ok = gotv == val or (gotv != gotv and val != val)
                        except ValueError:
                            ok = False
                    else:
                        code = {2: "h", 4: "i", 8: "q"}[a["size"]]
                        val = struct.unpack(endc + (code if a["signed"] else code.upper()), chunk)[0]
                        ok = s["res"] == str(val)
                    if not ok:
                        V.append(Verdict("codec-mismatch:accessor", "offset %d of %s: chibi %s, reference %r" % (off, chunk.hex(), s["res"][:60], val), {"fam": fam}))
                        break
    stt = res["stats"]
    cnt = res.get("counters", {})
    oc.fired = {"short_read": cnt.get("stream_short_read", 0), "would_block": cnt.get("stream_would_block", 0), "forced_collection": stt["gc_forced"],
                "stored_bytes_corrupted": 1 if fault and data != data0 else 0}
    oc.stats = {"sim_us": stt["sim_us"], "stored_bytes": len(data), "ticks": stt["ticks"]}
    if fault:
        oc.nontrivial = len(data0) >= 16 and data != data0
        outcomes = [s["res"] for s in steps[1:-1]]
        oc.probes = {"decoder_signalled_error": sum(1 for o in outcomes if o == "error-object")}
    else:
        oc.nontrivial = len(data0) >= 16 and (oc.fired["short_read"] + oc.fired["would_block"]) >= 1
    return oc


def sample(case, oc):
    return {"family": case["fam"], "config": case["config"], "kind": case["kind"], "fault": case.get("corrupt"), "chunks": (case.get("chunks") or [])[:24],
            "value": {k: (case[k][:200] if isinstance(case[k], str) else case[k]) for k in ("raw", "json", "rows", "acc", "text", "plus", "uv") if k in case}, "trace": oc.trace}


def shrink(case):
    ch = case.get("chunks")
    if ch:
        for cand in shrink_list(ch, 0):
            c = copy.deepcopy(case)
            c["chunks"] = cand
            yield c
            if len(ch) > 40:
                break
    if case["gc"].get("mode") != "none":
        c = copy.deepcopy(case)
        c["gc"] = {"mode": "none"}
        yield c
    if case.get("raw") and len(case["raw"]) > 8:
        for frac in (2, 4):
            c = copy.deepcopy(case)
            c["raw"] = case["raw"][: (len(case["raw"]) // frac) & ~1]
            c.pop("chunks", None)
            if "acc" not in c:
                yield c


DESIGN_REF = "DESIGN.md section 5, C19"
LEVEL_TEXT = ("Seeded search over (codec family, value, delivery schedule over three port kinds, small-buffer variant, collections, stored-byte "
              "corruption). Fault-free batch: independent reference codecs decide the expected result for every schedule; fault batch "
              "(separate, relaxed on purpose): value-or-error, terminates within the tick budget, ASan-clean, context usable afterwards. "
              "Exploration: inputs and schedules are sampled.")
LEVEL_NOTE = ("Input classes are sampled (not the claim). Trusts Python's base64/json/csv/quopri/struct/urllib.parse.")
