"""C05 -- tail calls run in constant space; deep recursion ends cleanly (resource part)."""
import copy

from ..engine import Outcome, Verdict, crash_verdicts, infra_problem

ID = "C05"
RULE = ("case = (loop program composed from R7RS 3.5 tail contexts, nesting <= 3, self/mutual recursion, fixed/rest/optional arity, apply; "
        "or a non-tail recursion of drawn depth -- plain, through apply / call-with-values, inside a Scheme callback of a C procedure (sort comparator, hash function) -- or one call spreading an n-element list) x (stack ceiling variant: tiny=32768 slots / default=1024000 slots, run in the main "
        "thread or in green threads with tape-chosen slice lengths, collection points incl. right after heap/stack growth, interrupt at a "
        "tape-chosen tick). A foreign probe called from the loop body records the VM-published stack top and the stack object length; the tick monitor records the largest stack object (an out-of-stack error is accepted only once a stack has reached the ceiling). "
        "Non-trivial: a tail loop of >= 20 x ceiling iterations (tiny) or >= 200000 (default) that was sampled >= 8 times, or a recursion "
        "that crossed at least one stack doubling; distinct = event-log hash.")
ASSUMPTIONS = [
    "which syntactic positions are tail positions is sampled as workload (composition generator), not enumerated",
    "frame layout tolerance: stack top at iteration i may exceed the first sample by at most 64 slots",
    "between the conservative lower bound (depth 1000 frames for a 32768-slot ceiling) and the ceiling itself either outcome (value or out-of-stack) is accepted",
]
COMPONENTS = {"real": ["compiler tail-call generation", "VM TAIL_CALL/APPLY1 frames", "sexp_ensure_stack/sexp_grow_stack", "green-thread stacks", "collector"],
              "stub": ["slice lengths", "collection schedule", "interrupt instant", "clock"]}
BUDGET = {"quick": {"seconds": 60, "cases": 4000, "min_cases": 150}, "thorough": {"seconds": 1200, "cases": 200000}}
CONFIGS = {
    "tiny": {"variant": "tiny", "imports": ["(srfi 18)", "(scheme case-lambda)", "(srfi 95)", "(srfi 69)"], "timeout_ms": 120000},
    "sim": {"variant": "sim", "imports": ["(srfi 18)", "(scheme case-lambda)", "(srfi 95)", "(srfi 69)"], "timeout_ms": 120000},
    "asan": {"variant": "asan", "imports": ["(srfi 18)", "(scheme case-lambda)", "(srfi 95)", "(srfi 69)"], "timeout_ms": 300000},
}
CEILING = {"tiny": 32768, "sim": 1024000, "asan": 1024000}

PROBE = """
(define (fact n) (if (= n 0) 1 (* n (fact (- n 1)))))
(write (list (fact 20) (string-append "a" "\\x3bb;") (vector-map (lambda (x) (* x x)) #(1 2 3))
             (call/cc (lambda (k) (+ 1 (k 42))))
             (guard (e (#t (list 'err (error-object-message e)))) (error "boom" 1))
             (let ((o (open-output-string))) (write '(a "b" #\\c 1.5) o) (get-output-string o))
             (let loop ((i 0) (acc '())) (if (= i 5) (reverse acc) (loop (+ i 1) (cons i acc))))
             (apply + (map (lambda (x) (* 2 x)) '(1 2 3)))
             (dynamic-wind (lambda () #f) (lambda () 'mid) (lambda () #f))
             (inexact 1/3)))
"""
PROBE_EXPECT = '(2432902008176640000 "a\xce\xbb" #(1 4 9) 42 (err "boom") "(a \\"b\\" #\\\\c 1.5)" (0 1 2 3 4) 12 mid 0.3333333333333333)'


def tail_call(rng, fn_next, depth, pad=""):
    """An expression in tail position that (eventually) tail-calls fn_next with (- i 1) (+ acc 1) [and its padding arguments]."""
    call = rng.choice([
        "(%s (- i 1) (+ acc 1)%s)" % (fn_next, pad),
        "(apply %s (list (- i 1) (+ acc 1)%s))" % (fn_next, pad),
        "(apply %s (- i 1) (list (+ acc 1)%s))" % (fn_next, pad),
    ])
    if depth <= 0:
        return call
    inner = lambda: tail_call(rng, fn_next, depth - 1, pad)  # noqa
    k = rng.below(20)
    if k >= 14:
        # one arm of a conditional ends the loop with a non-call expression (never taken: i >= 0 throughout), the other continues:
        # what precedes a tail context must not take its tail-ness away
        dead = rng.choice(["(set! g5 i)", "'lit", "acc", "(+ i 1)", "(begin (vector 1) (set! g5 acc))", "(set! loc5 i)", "(g5f i)", "(if (odd? i) (set! g5 1) (set! g5 2))"])
        form = rng.choice(["(if (< i 0) %(d)s %(t)s)", "(if (>= i 0) %(t)s %(d)s)", "(cond ((< i 0) %(d)s) (else %(t)s))", "(cond ((< i 0) 'x %(d)s) ((< i -5) %(d)s) (else %(t)s))",
                           "(case i ((-1) %(d)s) (else %(t)s))", "(if (< i 0) %(d)s (if (< i -1) %(d)s %(t)s))", "(do ((j 0 (+ j 1))) ((= j 1) (if (< i 0) %(d)s %(t)s)) %(d)s)"])
        return "(let ((loc5 0)) %s)" % (form % {"d": dead, "t": inner()})
    if k == 0:
        return "(if (even? i) %s %s)" % (inner(), inner())
    if k == 1:
        return "(cond ((= i -1) 'never) ((odd? i) %s) (else %s))" % (inner(), inner())
    if k == 2:
        return "(case (modulo i 3) ((0) %s) ((1) %s) (else %s))" % (inner(), inner(), inner())
    if k == 3:
        return "(and (>= i 0) #t %s)" % inner()
    if k == 4:
        return "(or (< i 0) #f %s)" % inner()
    if k == 5:
        return "(when (> i 0) 'side %s)" % inner()
    if k == 6:
        return "(unless (< i 0) 'side %s)" % inner()
    if k == 7:
        return "(let ((t (+ i 0))) %s)" % inner()
    if k == 8:
        return "(let* ((a 1) (b (+ a 1))) %s)" % inner()
    if k == 9:
        return "(letrec ((h (lambda () 1))) %s)" % inner()
    if k == 10:
        return "(begin 'x (vector 1) %s)" % inner()
    if k == 11:
        return "(do ((j 0 (+ j 1))) ((= j 1) %s))" % inner()
    if k == 12:
        return "(let loop2 ((z 0)) (if (< z 1) (loop2 (+ z 1)) %s))" % inner()
    return "(cond ((assv (modulo i 2) '((0 . a) (1 . b))) => (lambda (p) %s)) (else 'none))" % inner()


def gen_tail_program(rng, n_iter, probe_mask):
    nf = rng.range(1, 3)
    names = ["f%d" % j for j in range(nf)]
    # the procedures of a cycle take different numbers of arguments (fixed-arity ones get 0-2 padding parameters), so the cycle
    # contains tail calls that pass more arguments than the caller received, and ones that pass fewer
    arities = [rng.below(4) for _ in names]
    extra = [rng.choice([0, 0, 1, 2]) if a == 0 else 0 for a in arities]
    defs = []
    for j, nm in enumerate(names):
        nxt = names[(j + 1) % nf]
        body = tail_call(rng, nxt, rng.range(0, 3), " 'p" * extra[(j + 1) % nf])
        arity = arities[j]
        probe = "(if (= 0 (modulo i %d)) (sim-probe i))" % probe_mask if j == 0 else "'noprobe"
        if arity == 0:
            defs.append("(define (%s i acc%s) (if (= i 0) acc (begin %s %s)))" % (nm, "".join(" p%d" % x for x in range(extra[j])), probe, body))
        elif arity == 1:
            defs.append("(define (%s i . rest) (let ((acc (car rest))) (if (= i 0) acc (begin %s %s))))" % (nm, probe, body))
        elif arity == 2:
            defs.append("(define %s (case-lambda ((i) (%s i 0)) ((i acc) (if (= i 0) acc (begin %s %s)))))" % (nm, nm, probe, body))
        else:
            defs.append("(define %s (lambda (i acc . opt) (if (= i 0) acc (begin %s %s))))" % (nm, probe, body))
    defs.insert(0, "(define g5 0) (define (g5f x) x)")
    return "\n".join(defs), "(%s %d 0%s)" % (names[0], n_iter, " 'p" * extra[0])


def generate(rng, tier, index, seed):
    kind = rng.weighted([("tail", 5), ("deep", 4), ("deep-thread", 2), ("interrupt", 2)])
    cfg = rng.weighted([("tiny", 6), ("sim", 2), ("asan", 1)])
    ceiling = CEILING[cfg]
    sched = {"default_q": rng.choice([500, 500, 50, 7]), "tick_budget": 400000000, "sample_stack": True}
    gc = rng.choice([{"mode": "none"}, {"mode": "aftergrow"},
                     {"mode": "points", "points": sorted(set(rng.below(rng.choice([1000, 100000, 3000000])) for _ in range(rng.range(1, 25))))}])
    meta = {"family": kind + "-" + cfg, "ceiling": ceiling}
    steps = []
    if kind == "tail":
        if cfg == "tiny":
            n_iter = rng.choice([20, 25, 40]) * ceiling
        else:
            n_iter = rng.choice([200000, 400000]) if tier == "quick" else rng.choice([400000, 2000000, 10000000])
        if cfg == "asan":
            n_iter = 20000   # the 32-byte pad of the asan variant litters the free list with unusable 32-byte chunks: keep it short
        mask = max(1, n_iter // 16)
        defs, call = gen_tail_program(rng.fork("prog"), n_iter, mask)
        in_thread = rng.chance(1, 3)
        if in_thread:
            call = "(thread-join! (thread-start! (make-thread (lambda () %s))))" % call
            sched["quantum"] = [rng.range(1, 60) for _ in range(rng.range(10, 400))]
        steps = [{"op": "eval", "src": defs}, {"op": "eval", "src": call}, {"op": "eval", "src": PROBE}]
        meta.update({"n_iter": n_iter, "in_thread": in_thread})
    elif kind in ("deep", "deep-thread"):
        # depths around every doubling boundary of the stack and around the ceiling
        frames_lo = 2   # a frame takes at least 2 slots, so depth > ceiling/2 .. must fail when > ceiling
        choices = [10, 200, 1000]
        size = 1024
        while size <= ceiling:
            choices += [size // 8, size // 6, size // 5, size // 4, size // 3]
            size *= 2
        choices += [ceiling // 5, ceiling // 4, ceiling // 3, ceiling // 2, ceiling + 10, ceiling * 2]
        depth = max(1, rng.choice(choices) + rng.range(-3, 3))
        if cfg != "tiny" and tier == "quick":
            depth = min(depth, 300000)
        if cfg == "asan":
            depth = min(depth, 40000)
        shape = rng.choice(["(+ 1 (count (- n 1)))", "(cons n (count (- n 1)))", "(let ((r (count (- n 1)))) (if (pair? r) (cons n r) (+ 1 r)))",
                            "(apply + 1 (list (count (- n 1))))", "(car (map (lambda (x) (+ 1 (count (- n 1)))) '(1)))",
                            # the recursive call itself goes through apply (two-argument form and spread form): the stack check of
                            # APPLY1 is the one that has to grow the stack
                            "(+ 1 (apply count (list (- n 1))))", "(+ 1 (apply count (- n 1) '()))", "(+ 1 (call-with-values (lambda () (- n 1)) count))",
                            "(+ 1 (apply count2 (list (- n 1) 'pad 'pad)))",
                            # not a recursion: one call spreading an n-element list onto the stack
                            "(apply + (make-list n 1))", "(length (apply list (make-list n 1)))", "(apply + 0 0 (make-list n 1))", "(vector-length (apply vector (make-list n 1)))"])
        if "(apply + " in shape and "make-list" in shape:
            # a primitive applied to n spread arguments is compiled into an n-argument wrapper in time quadratic in n (5 s at 50000)
            depth = min(depth, 20000)
        base = "'()" if "cons n" in shape and "let" not in shape else "0"
        defs = "(define (count2 n . rest) (count n)) (define (count n) (if (= n 0) %s %s))" % (base, shape)
        call = "(let ((r (count %d))) (if (pair? r) (length r) r))" % depth
        via = rng.choice(["direct", "direct", "sort", "hash", "sort-churn"])
        if via != "direct":
            # the whole recursion happens inside a Scheme callback invoked from C (SRFI 95 sort comparator / SRFI 69 hash function):
            # a nested VM activation grows the shared stack while the outer activation is suspended in the C procedure
            inner = "(let ((r (count %d))) (if (pair? r) (length r) r))" % depth
            if via == "hash":
                call = ("(let ((res #f)) (let ((t (make-hash-table equal? (lambda (k . o) (set! res %s) 0)))) (hash-table-set! t 'a 1) "
                        "(let loop ((i 0) (acc '())) (if (< i 3000) (loop (+ i 1) (cons (make-vector 3 i) acc)))) res))" % inner)
            else:
                churn = "(let loop ((i 0) (acc '())) (if (< i 20000) (loop (+ i 1) (if (> i 19990) (cons (make-vector 5 i) acc) '()))))" if via == "sort-churn" else "'no-churn"
                call = ("(let ((res #f)) (let ((l (sort (list 3 1 2) (lambda (a b) (if (not res) (set! res %s)) (< a b))))) %s (if (equal? l '(1 2 3)) res (list 'bad-sort l))))" % (inner, churn))
        if kind == "deep-thread":
            call = "(call/cc (lambda (k) (with-exception-handler (lambda (e) (k (list 'thread-raised (if (error-object? e) (error-object-message e) e)))) (lambda () (thread-join! (thread-start! (make-thread (lambda () %s))))))))" % call
            sched["quantum"] = [rng.range(1, 200) for _ in range(rng.range(10, 300))]
        steps = [{"op": "eval", "src": defs}, {"op": "eval", "src": call}, {"op": "eval", "src": PROBE}, {"op": "eval", "src": "(count 50)"}]
        meta.update({"depth": depth, "base": base, "spread": "make-list n" in shape})
    else:
        n_iter = 300000 if cfg != "asan" else 20000
        defs, call = gen_tail_program(rng.fork("prog"), n_iter, 50000)
        sched["interrupt_at_tick"] = rng.range(1, 1500)
        sched["default_q"] = rng.choice([500, 100, 13, 3])
        # the interrupt may land while the definitions are being compiled (macro expansion) or inside the loop
        steps = [{"op": "eval", "src": defs}, {"op": "eval", "src": call}, {"op": "eval", "src": PROBE},
                 {"op": "eval", "src": defs}, {"op": "eval", "src": call}]
        meta.update({"n_iter": n_iter})
    return {"prop": ID, "index": index, "seed": seed, "config": cfg, "meta": meta, "kind": kind, "steps": steps, "sched": sched, "gc": gc, "knobs": {}}


def execute(case, run):
    oc = Outcome()
    oc.case = case
    plan = {"id": 1, "steps": case["steps"], "gc": case["gc"], "sched": case["sched"], "knobs": case.get("knobs", {})}
    res = run(case["config"], plan)
    ip = infra_problem(res)
    if ip:
        oc.infra = ip
        return oc
    oc.result = res
    oc.trace = res.get("ev_hash", "") or res.get("status", "")
    oc.verdicts = crash_verdicts(res, "program")
    if res.get("status") != "ok":
        return oc
    st = res["stats"]
    steps = res["steps"]
    kind = case["kind"]
    meta = case["meta"]
    ceiling = meta["ceiling"]
    samples = res.get("stack", [])
    V = oc.verdicts

    def probe_ok(i):
        s = steps[i]
        if s["exc"] or s["out"] != PROBE_EXPECT:
            V.append(Verdict("context-unusable", "probe program after the run printed %r / %r, expected %r" % (s["out"][:300], s["res"][:200], PROBE_EXPECT), {"kind": kind}))

    if steps[0]["exc"] and kind != "interrupt":
        V.append(Verdict("setup-error", steps[0]["res"][:300], {}))
        return oc
    if kind == "tail":
        r = steps[1]
        if r["exc"] or r["res"] != str(meta["n_iter"]):
            cls = "tail-loop-out-of-stack" if "out of stack" in r["res"] else "tail-loop-wrong-result"
            V.append(Verdict(cls, "tail loop of %d iterations returned %r (max sampled top %d, ceiling %d)" % (meta["n_iter"], r["res"][:200], st["max_top"], ceiling), {"kind": kind}))
        if len(samples) >= 2:
            first = samples[0]
            for lab, top, ln in samples[1:]:
                if top > first[1] + 64:
                    V.append(Verdict("tail-stack-growth", "stack top %d at iteration label %d vs %d at the first sample (label %d)" % (top, lab, first[1], first[0]), {"kind": kind}))
                    break
            lens = set(s[2] for s in samples[1:])
            if len(lens) > 1:
                V.append(Verdict("tail-stack-object-growth", "stack object length changed during the loop: %r" % sorted(lens), {"kind": kind}))
        if not meta.get("in_thread") and st["max_top"] > 4096:
            V.append(Verdict("tail-stack-growth", "tick monitor saw stack top %d during a tail loop" % st["max_top"], {"kind": kind}))
        probe_ok(2)
        oc.nontrivial = len(samples) >= 8 and not V
    elif kind in ("deep", "deep-thread"):
        r = steps[1]
        d = meta["depth"]
        # (SRFI 69 reports an error raised by a user hash function on the error port and carries on with bucket 0, by design)
        oos = "out of stack" in r["res"] or ("out of stack" in r["out"]) or (r["res"] == "#f" and "out of stack" in (r.get("err") or ""))
        val_ok = (not r["exc"]) and r["res"] == str(d)
        thread_raised = r["res"].startswith("(thread-raised")
        if not (val_ok or oos or (kind == "deep-thread" and thread_raised and "out of stack" in (r["res"] + (r.get("err") or "")))):
            V.append(Verdict("deep-recursion-wrong-outcome", "depth %d: outcome %r (neither the value nor an out-of-stack error)" % (d, (r["res"] + "|" + r["out"])[:300]), {"kind": kind}))
        if d <= ceiling // 33 and not val_ok:
            V.append(Verdict("deep-recursion-spurious-failure", "depth %d is far below the ceiling %d but did not return its value: %r" % (d, ceiling, r["res"][:200]), {"kind": kind}))
        if oos:
            # an out-of-stack error is only right when the stack cannot hold what was asked for: some stack object must have been grown to
            # the configured maximum first (the tick monitor samples the running context's stack object every few hundred instructions, and
            # filling the upper half of the largest stack takes far longer than that), or -- one call spreading d values -- d alone must not fit
            if meta.get("spread"):
                # (a primitive applied to d spread values runs through a d-parameter wrapper that pushes them a second time)
                if 3 * d + 2048 < ceiling:
                    V.append(Verdict("out-of-stack-below-ceiling", "spreading %d values reported out of stack; ceiling %d slots" % (d, ceiling), {"kind": kind, "spread": True}))
            elif st.get("max_stack_len", ceiling) < ceiling:
                V.append(Verdict("out-of-stack-below-ceiling", "depth %d reported out of stack while the largest stack object seen had %d slots, ceiling %d" % (d, st["max_stack_len"], ceiling), {"kind": kind, "spread": False}))
        if d > ceiling and val_ok:
            V.append(Verdict("ceiling-not-enforced", "depth %d exceeds the stack ceiling %d slots but returned a value" % (d, ceiling), {"kind": kind}))
        probe_ok(2)
        if steps[3]["exc"] or steps[3]["res"] not in ("50", ) and not steps[3]["res"].startswith("(50 "):
            V.append(Verdict("context-unusable", "(count 50) after the deep recursion gave %r" % steps[3]["res"][:200], {"kind": kind}))
        oc.fired["out_of_stack"] = 1 if oos or thread_raised else 0
        oc.nontrivial = st["max_top"] >= 2048 or oos or thread_raised
    else:
        hit = [i for i in (0, 1) if steps[i]["exc"] and "interrupt" in steps[i]["res"].lower()]
        other = [i for i in (0, 1) if steps[i]["exc"] and i not in hit]
        # step 1 legitimately fails with "undefined variable" when the interrupt aborted the definitions
        other = [i for i in other if not (i == 1 and 0 in hit)]
        if other:
            V.append(Verdict("interrupt-wrong-outcome", "step %d ended with %r" % (other[0], steps[other[0]]["res"][:200]), {"kind": kind}))
        if not hit and not other and steps[1]["res"] != str(meta["n_iter"]):
            V.append(Verdict("interrupt-wrong-outcome", "uninterrupted loop returned %r" % steps[1]["res"][:200], {"kind": kind}))
        probe_ok(2)
        if steps[3]["exc"]:
            V.append(Verdict("context-unusable", "re-evaluating the definitions after the interrupt gave %r" % steps[3]["res"][:200], {"kind": kind}))
        r2 = steps[4]
        if r2["exc"] or r2["res"] != str(meta["n_iter"]):
            V.append(Verdict("context-unusable", "the same loop re-run after the interrupt gave %r" % r2["res"][:200], {"kind": kind}))
        oc.fired["interrupt"] = res.get("counters", {}).get("interrupts_raised", 0)
        oc.nontrivial = bool(hit)
    oc.fired.update({"forced_collection": st["gc_forced"], "context_switches": st["switches"]})
    oc.stats = {"sim_us": st["sim_us"], "ticks": st["ticks"], "allocs": st["allocs"]}
    oc.maxima = {"max_stack_top": st["max_top"]}
    return oc


def sample(case, oc):
    return {"kind": case["kind"], "config": case["config"], "meta": case["meta"], "program": [s["src"][:400] for s in case["steps"][:2]],
            "sched": {k: (v[:20] if isinstance(v, list) else v) for k, v in case["sched"].items()}, "gc": case["gc"], "trace": oc.trace}


def shrink(case):
    if case["gc"].get("mode") != "none":
        c = copy.deepcopy(case)
        c["gc"] = {"mode": "none"}
        yield c
    if case["sched"].get("quantum"):
        c = copy.deepcopy(case)
        c["sched"]["quantum"] = []
        yield c
    if case["sched"].get("default_q") != 500:
        c = copy.deepcopy(case)
        c["sched"]["default_q"] = 500
        yield c


def selftest(check):
    """Positive control needing no source edit: SEXP_G_NO_TAIL_CALLS_P makes the compiler emit CALL for tail calls."""
    from ..common import Rng
    case = generate(Rng(12345), "quick", 0, 12345)
    while case["kind"] != "tail" or case["config"] != "tiny" or case["meta"].get("in_thread"):
        case = generate(Rng(case["seed"] + 1), "quick", 0, case["seed"] + 1)
    case["knobs"] = {"no_tail_calls": True}
    oc = check.execute_single(case)
    return any(v.cls.startswith("tail-") for v in oc.verdicts), [v.cls for v in oc.verdicts]


DESIGN_REF = "DESIGN.md section 5, C05"
LEVEL_TEXT = ("Seeded search over (tail-context composition, stack ceiling, slice lengths, collection points, interrupt instant): the "
              "VM-published stack top is sampled from a foreign probe and from the tick monitor over N >> ceiling iterations; recursion depths "
              "are placed around every stack doubling and the ceiling; after out-of-stack or interrupt a fixed probe program must print what a "
              "fresh context prints. Exploration: resource behaviour under simulator-owned limits/schedules is what is decided; the set of "
              "tail contexts is sampled.")
LEVEL_NOTE = ("Trusts the probe's view of sexp_context_top (published before foreign calls). Tail-context coverage is sampled, not enumerated. "
              "Positive control: the no-tail-calls runtime switch must make the check fail (verif.py selftest C05).")
