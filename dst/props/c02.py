"""C02 -- the collector never reclaims or corrupts reachable data: result independent of the
collection schedule and of the initial heap size."""
import copy
import re
import json
import os
import threading

from .. import progs
from ..common import REPO, plan_hash
from ..engine import Outcome, Verdict, crash_verdicts, infra_problem, shrink_list

ID = "C02"
RULE = ("case = (program, collection schedule, knobs) drawn from the run seed; programs are generated allocation-heavy "
        "workloads (one family per C allocation area; deep-recursion frames verify the contents of what only their stack slots hold; a small mixed-number-representation arithmetic family gets a collection at EVERY allocation), corpus files from tests/ and library test suites, and embedder-op "
        "scripts; the schedule forces sexp_gc before tape-chosen allocations (points, window, every-n, bernoulli, after-growth, and at the k allocations that follow every large allocation such as a re-allocated VM stack). "
        "A case is non-trivial when at least one forced collection fired inside the workload and the workload performed >= 50 "
        "allocations; distinct = distinct event-log hashes (which collections fired where + every step's output hash).")
ASSUMPTIONS = [
    "sampling, not proof: only (program, schedule) pairs drawn are decided",
    "C locals of code paths no workload reaches are not exercised",
    "allocation failure is not injected (no listed property constrains it)",
    "the baseline transcript (no forced collections) of the same fork-identical image is the reference",
]
COMPONENTS = {
    "real": ["reader", "compiler", "VM", "collector (gc.c)", "bignum.c", "SRFI 69/95/151/18 C modules", "chibi json", "string/bytevector ports"],
    "stub": ["clock (frozen simulated clock)", "collection schedule (simulator decides when sexp_gc runs)"],
}
BUDGET = {"quick": {"seconds": 75, "cases": 4000, "min_cases": 250}, "thorough": {"seconds": 1500, "cases": 400000}}

IMPORTS = progs.ALL_IMPORTS
CONFIGS = {
    "sim": {"variant": "sim", "imports": IMPORTS, "timeout_ms": 120000},
    "asan": {"variant": "asan", "imports": IMPORTS, "timeout_ms": 240000},
    # 128-byte port buffers and a 1024-slot initial stack: buffer flushes and stack re-allocations inside almost every operation
    "tiny": {"variant": "tiny", "imports": IMPORTS, "timeout_ms": 120000},
}

_baselines = {}
_block = threading.Lock()

CORPUS = None


LIB_SUITES = ["(srfi 1 test)", "(srfi 69 test)", "(srfi 95 test)", "(srfi 151 test)", "(srfi 38 test)", "(srfi 133 test)", "(srfi 130 test)", "(srfi 2 test)",
              "(srfi 16 test)", "(srfi 26 test)", "(srfi 14 test)", "(srfi 113 test)", "(srfi 117 test)", "(srfi 127 test)", "(srfi 128 test)", "(srfi 41 test)",
              "(chibi json-test)", "(chibi base64-test)", "(chibi string-test)", "(chibi iset-test)", "(chibi loop-test)", "(chibi match-test)", "(chibi parse-test)",
              "(chibi regexp-test)", "(chibi uri-test)", "(chibi generic-test)", "(chibi bytevector-test)", "(chibi sxml-test)", "(chibi csv-test)",
              "(chibi quoted-printable-test)", "(chibi mime-test)", "(chibi text-test)", "(chibi diff-test)", "(chibi edit-distance-test)", "(chibi optional-test)"]
BIG_FILES = ["r7rs-tests.scm", "division-tests.scm", "syntax-tests.scm", "unicode-tests.scm"]


def corpus():
    """(name, source, heavy?) -- heavy entries are whole suites (seconds each): sparse schedules only"""
    global CORPUS
    if CORPUS is None:
        CORPUS = []
        d = os.path.join(REPO, "tests", "basic")
        for f in sorted(os.listdir(d)):
            if f.endswith(".scm"):
                CORPUS.append(("basic/" + f, open(os.path.join(d, f)).read(), False))
        for f in BIG_FILES:
            CORPUS.append(("tests/" + f, open(os.path.join(REPO, "tests", f)).read(), True))
        for lib in LIB_SUITES:
            CORPUS.append(("suite " + lib, "(import %s) (run-tests)" % lib, True))
    return CORPUS


EMBED_OPS = ["cons", "list2", "list3", "string", "intern", "fixnum", "flonum", "bignum", "vector", "vset", "push", "apply", "eval", "read", "write", "keep", "release", "churn"]


def gen_embed(rng):
    script = []
    for _ in range(rng.range(6, 40)):
        op = rng.choice(EMBED_OPS)
        text = ""
        if op == "string":
            text = rng.choice(["hello", "", "a\u03bbb", "x" * 200])
        elif op == "intern":
            text = "sym%d" % rng.below(50)
        elif op == "apply":
            text = rng.choice(["(lambda (a b) (list b a (string-append \"x\" \"y\")))", "(lambda (a b) (vector a b (* 1.5 2)))", "cons", "(lambda (a b) (let loop ((i 0) (acc (list a))) (if (= i 30) acc (loop (+ i 1) (cons b acc)))))"])
        elif op == "eval":
            text = rng.choice(["(list 1 2 (vector 3 4))", "(string-append \"ab\" \"cd\")", "(let loop ((i 0) (acc '())) (if (= i 50) acc (loop (+ i 1) (cons i acc))))", "(expt 3 100)"])
        elif op == "read":
            text = rng.choice(["(a (b c) #(1 2) \"s\" 1.5)", "12345678901234567890", "#u8(1 2 3)"])
        script.append([op, rng.below(8), rng.below(1 << 20) if op in ("fixnum", "flonum", "bignum", "vector", "churn") else rng.below(8), rng.below(8), text])
    return script


def generate(rng, tier, index, seed):
    r = rng.below(100)
    heavy = False
    steps = None
    if r < 10:
        light = [c for c in corpus() if not c[2]]
        name, src, heavy = rng.choice(light)
        fam = "corpus"
    elif r < (14 if tier == "quick" else 30):
        big = [c for c in corpus() if c[2]]
        name, src, heavy = rng.choice(big)
        fam = "corpus-suite"
    elif r < (24 if tier == "quick" else 40):
        name, fam = "embedder-ops", "embedder-ops"
        steps = [{"op": "embed", "script": gen_embed(rng.fork("embed"))}]
    else:
        name, src, _ = progs.gen_program(rng.fork("prog"))
        fam = name
    if steps is None:
        steps = [{"op": "eval", "src": src}]
    if tier == "thorough" and not heavy and rng.chance(1, 3):
        # sweep: windows that together put a collection before EVERY allocation of the program (window j of width w)
        spec = {"mode": "window-sweep", "j": rng.below(4096), "w": rng.choice([25, 50, 100])}
    elif heavy:
        # a whole suite runs millions of allocations: sparse schedules only
        mode = rng.weighted([("points", 3), ("window", 3), ("bernoulli", 2), ("aftergrow", 1)])
        spec = {"mode": mode}
        if mode == "points":
            spec["fracs"] = [rng.below(1 << 20) for _ in range(rng.range(1, 40))]
        elif mode == "window":
            spec["a_frac"] = rng.below(1 << 20)
            spec["w"] = rng.choice([20, 100, 300])
        elif mode == "bernoulli":
            spec["p1024"] = 1
            spec["seed"] = rng.below(1 << 30)
    else:
        mode = rng.weighted([("points", 4), ("window", 3), ("every", 3), ("bernoulli", 2), ("aftergrow", 1), ("afterbig", 3 if fam != "deep" else 14)])
        spec = {"mode": mode}
        if fam == "tower" and rng.chance(2, 3):
            # small enough for a collection at every single allocation of the whole program
            mode = "every-all"
            spec = {"mode": "every", "n": 1, "off_frac": 0, "max_gcs": 6000}
        if mode == "afterbig":
            # collections at the k allocations that follow every allocation of at least min_bytes (a grown VM stack, a vector,
            # a string buffer, a bignum): the moment a freshly built large object is referenced from few places
            spec["min_bytes"] = rng.choice([256, 2048, 8192])
            spec["k"] = rng.choice([1, 2, 4])
        elif mode == "points":
            spec["fracs"] = [rng.below(1 << 20) for _ in range(rng.range(1, 12))]
        elif mode == "window":
            spec["a_frac"] = rng.below(1 << 20)
            spec["w"] = rng.choice([1, 2, 5, 20, 100, 400])
        elif mode == "every":
            spec["n"] = rng.choice([1, 2, 3, 7, 31, 100, 1000])
            spec["off_frac"] = rng.below(1 << 20)
            spec["max_gcs"] = 600
        elif mode == "bernoulli":
            spec["p1024"] = rng.choice([1, 4, 16, 64])
            spec["seed"] = rng.below(1 << 30)
    variant = "asan" if (rng.chance(1, 6) and not heavy) else ("tiny" if (rng.chance(1, 4) and not heavy) else "sim")
    case = {
        "prop": ID, "index": index, "seed": seed, "config": variant,
        "meta": {"family": fam, "program": name},
        "steps": steps,
        "gc_rel": spec,
        "sched": {"default_q": rng.choice([500, 500, 50, 7]), "tick_budget": 50000000},
        "heapcheck_every": rng.choice([0, 0, 1, 5]) if not heavy else 0,
    }
    return case


def base_plan(case):
    return {"id": 0, "steps": case["steps"], "sched": case["sched"], "gc": {"mode": "none"}, "knobs": case.get("knobs", {})}


def resolve(case, nalloc):
    """Turn the relative schedule into an absolute tape (explicit data in the replay file)."""
    if "gc" in case:
        return case
    c = copy.deepcopy(case)
    spec = c.pop("gc_rel")
    n = max(1, nalloc)
    m = spec["mode"]
    gc = {"mode": m}
    if m == "points":
        gc["points"] = sorted(set((f * n) >> 20 for f in spec["fracs"]))
    elif m == "window-sweep":
        gc["mode"] = "window"
        nwin = max(1, (n + spec["w"] - 1) // spec["w"])
        gc["a"] = (spec["j"] % nwin) * spec["w"]
        gc["w"] = spec["w"]
    elif m == "window":
        gc["a"] = (spec["a_frac"] * n) >> 20
        gc["w"] = spec["w"]
    elif m == "every":
        k = spec["n"]
        off = (spec["off_frac"] * n) >> 20
        # bound the number of collections so a run stays short: start late enough
        if (n - off) // k > spec["max_gcs"]:
            off = n - k * spec["max_gcs"]
        gc["n"] = k
        gc["off"] = off
    elif m == "afterbig":
        gc["min_bytes"] = spec["min_bytes"]
        gc["k"] = spec["k"]
    elif m == "bernoulli":
        gc["p1024"] = spec["p1024"]
        gc["seed"] = spec["seed"]
        if n * spec["p1024"] // 1024 > 800:
            gc["p1024"] = max(1, 800 * 1024 // n)
    gc["heapcheck_every"] = c.pop("heapcheck_every", 0)
    gc["max_forced"] = max(1000, spec.get("max_gcs", 0))
    c["gc"] = gc
    return c


_ELAPSED = re.compile(r"in [0-9][0-9.e+-]* seconds")


def transcript(res):
    # the test framework prints elapsed (simulated) time, which follows the tick count; that count legitimately depends on where
    # objects were allocated (identity-hash bucket chains), hence on the collection schedule
    return [(_ELAPSED.sub("in T seconds", s["out"]), s["res"], s["exc"]) for s in res.get("steps", [])]


def execute(case, run):
    oc = Outcome()
    cfg = case["config"]
    bp = base_plan(case)
    key = cfg + plan_hash(bp)
    with _block:
        base = _baselines.get(key)
    if base is None:
        base = run(cfg, bp)
        oc.runs += 1
        with _block:
            if len(_baselines) < 5000:
                _baselines[key] = base
    ip = infra_problem(base)
    if ip:
        oc.infra = ip
        return oc
    bv = crash_verdicts(base, "baseline (no forced collections)")
    if bv:
        # the unperturbed run itself is unhealthy: report under its own class
        oc.verdicts = [Verdict("baseline-" + v.cls, v.detail, v.sig) for v in bv]
        oc.result = base
        oc.trace = base.get("ev_hash", "")
        oc.case = case
        return oc
    rc = resolve(case, base["stats"]["allocs"])
    oc.case = rc
    plan = {"id": 1, "steps": rc["steps"], "sched": rc["sched"], "gc": rc["gc"], "knobs": rc.get("knobs", {})}
    res = run(cfg, plan)
    ip = infra_problem(res)
    if ip:
        oc.infra = ip
        return oc
    oc.result = res
    oc.trace = res.get("ev_hash", "") or res.get("status", "")
    oc.verdicts = crash_verdicts(res, "run under forced collections")
    if res.get("status") == "ok":
        tb, tr = transcript(base), transcript(res)
        if tb != tr:
            for i, (a, b) in enumerate(zip(tb, tr)):
                if a != b:
                    oc.verdicts.append(Verdict("diverged-from-baseline",
                                               "step %d: baseline out=%r res=%r | forced-gc out=%r res=%r" % (i, a[0][-300:], a[1][-300:], b[0][-300:], b[1][-300:]),
                                               {"family": case["meta"]["family"]}))
                    break
        st = res["stats"]
        oc.fired = {"forced_collection": st["gc_forced"], "natural_collection": st["gc_natural"]}
        oc.stats = {"sim_us": st["sim_us"], "allocs": st["allocs"], "heapchecks": st["heapchecks"], "ticks": st["ticks"]}
        oc.nontrivial = st["gc_forced"] >= 1 and st["allocs"] >= 50
    return oc


def sample(case, oc):
    c = oc.case if getattr(oc, "case", None) else case
    return {"program": c["meta"]["program"], "config": c["config"], "gc": c.get("gc"), "source_head": c["steps"][0]["src"][:300],
            "forced": oc.fired.get("forced_collection"), "allocs": oc.stats.get("allocs"), "trace": oc.trace}


def shrink(case):
    gc = case.get("gc", {})
    m = gc.get("mode")
    if m == "points":
        for pts in shrink_list(gc["points"], 1):
            c = copy.deepcopy(case)
            c["gc"]["points"] = pts
            yield c
    elif m == "window":
        if gc["w"] > 1:
            for a, w in ((gc["a"], gc["w"] // 2), (gc["a"] + gc["w"] // 2, gc["w"] - gc["w"] // 2)):
                c = copy.deepcopy(case)
                c["gc"]["a"], c["gc"]["w"] = a, w
                yield c
        else:
            c = copy.deepcopy(case)
            c["gc"] = {"mode": "points", "points": [gc["a"]], "heapcheck_every": gc.get("heapcheck_every", 0)}
            yield c
    elif m == "every":
        # convert to an explicit point list so that it can be cut down
        pass
    if case["sched"].get("default_q", 500) != 500:
        c = copy.deepcopy(case)
        c["sched"]["default_q"] = 500
        yield c

DESIGN_REF = "DESIGN.md section 5, C02"
LEVEL_TEXT = ("Seeded search over (program, collection schedule, heap configuration): the real collector is forced before "
              "tape-chosen allocations of real workloads, swept memory is poisoned (byte pattern / ASan manual poisoning with red zones), "
              "and the transcript must equal the unforced run of the same fork-identical image. Exploration, not proof: the property is "
              "literally a statement over schedules, which is what the simulator owns; a clean batch is evidence for the schedules drawn.")
LEVEL_NOTE = ("Trusts: the baseline (unforced) transcript as reference; the type layout table as description of reference slots; "
              "that workloads reach the C allocation sites of interest (allocation families listed in evidence). Not covered: allocation failure; "
              "C code no workload reaches.")
