"""C16 -- weak references and finalizers track reachability exactly."""
import copy

from ..engine import Outcome, Verdict, crash_verdicts, infra_problem, shrink_list

ID = "C16"
RULE = ("case = history (<= 60 operations, each a separate top-level evaluation from C so that no VM temporary outlives an operation) over "
        "keys, ephemerons and ports: mk-key, root/unroot, mk-eph with value in {fresh datum, datum referencing the key, another key, "
        "another ephemeron}, drop-eph, gc, query, open/read/close/drop port (file ports via fopen, descriptor ports on dup'ed fds with and "
        "without no-close), fd-count, exhaustion loop under a lowered RLIMIT_NOFILE, destroy-context; fault: tape-chosen close() calls release the "
        "descriptor but report EINTR / EIO; forced collections at tape-marked "
        "operation boundaries and at allocation indices inside operations. A reachability model (ephemeron value edges count only while "
        "the key is model-alive) predicts every query. Non-trivial: >= 2 forced collections and >= 1 query or descriptor check evaluated; "
        "distinct = event-log hash.")
ASSUMPTIONS = [
    "'promptly broken' is asserted only for keys whose last strong holder was the roots vector and that became model-unreachable at least one "
    "complete operation before a forced full collection (the one case where no register or C local can still hold them)",
    "descriptor promptness (closed by the next forced collection after the owner was dropped) is asserted under the same rule",
    "interposed fopen/fclose/open/close define what 'released' means; descriptors opened by other means are not tracked",
    "a close() that reports EINTR / EIO has released the descriptor (Linux semantics): the owner must not close it again",
]
COMPONENTS = {"real": ["mark/weak-reset/finalize/sweep", "ephemerons (chibi weak)", "fileno table (ephemerons keyed by fileno objects)", "port finalizers",
                       "EMFILE -> collect -> retry in open-*-file", "sexp_destroy_context"],
              "stub": ["collection schedule", "RLIMIT_NOFILE", "libc fopen/fclose/close wrappers (log + forward; close may report a failure after releasing)"]}
BUDGET = {"quick": {"seconds": 50, "cases": 6000, "min_cases": 250}, "thorough": {"seconds": 900, "cases": 400000}}
CONFIGS = {
    "sim": {"variant": "sim", "imports": ["(chibi weak)", "(only (chibi) open-input-file-descriptor)"], "timeout_ms": 60000},
    "asan": {"variant": "asan", "imports": ["(chibi weak)", "(only (chibi) open-input-file-descriptor)"], "timeout_ms": 180000},
}
NK, NE, NP = 5, 5, 4
PRELUDE = ("(define K (make-vector %d #f)) (define E (make-vector %d #f)) (define P (make-vector %d #f)) "
           "(define-record-type box (make-box v) box? (v box-v)) (define H #f) #t" % (NK, NE, NP))
README = "/repo/README.md"


def key_expr(rng, i):
    k = rng.below(5)
    tag = "k%d-%d" % (i, rng.below(1000))
    if k == 4:
        # a key too large for the small holes of a fragmented heap: it lands above the ephemerons that refer to it
        return "(make-vector 40 '%s)" % tag, None
    if k == 0:
        return '(string-append "%s" "")' % tag, '"%s"' % tag
    if k == 1:
        return "(list '%s 1)" % tag, "(%s 1)" % tag
    if k == 2:
        return "(vector '%s)" % tag, "#(%s)" % tag
    return "(make-box '%s)" % tag, None


def query_op(e):
    return {"src": "(let* ((e (vector-ref E %d)) (k (ephemeron-key e)) (v (ephemeron-value e))) (list (ephemeron-broken? e) "
                   "(let loop ((i 0)) (cond ((= i %d) (if k 'other #f)) ((and k (eq? k (vector-ref K i))) i) (else (loop (+ i 1))))) "
                   "(if (or (pair? v) (vector? v)) (let ((o (open-output-string))) (write (if (and (pair? v) (pair? (cdr v)) (not (string? (cadr v))) (not (symbol? (cadr v)))) (car v) v) o) (get-output-string o)) (if v 'obj #f))))"
                   % (e, NK), "kind": "query", "slot": e}


class Model:
    """Reference reachability model. Keys and ephemerons are objects with ids; K and E slots are the roots. An ephemeron that is
    reachable and whose key is reachable (or immediate) keeps alive the keys and the ephemerons its value refers to."""

    def __init__(self):
        self.key = {}       # K slot -> key id (rooted)
        self.keys = {}      # key id -> {}
        self.eph = {}       # E slot -> ephemeron id (rooted)
        self.eobj = {}      # ephemeron id -> {"key": key id or None (immediate #f), "refs": [key ids], "erefs": [ephemeron ids], "written", "created"}
        self.next_id = 0
        self.alive = set()
        self.dead_since = {}   # key id -> op index at which it became model-unreachable

    def new_id(self):
        self.next_id += 1
        return self.next_id - 1

    def add_key(self, slot):
        kid = self.new_id()
        self.keys[kid] = {}
        self.key[slot] = kid
        return kid

    def add_eph(self, slot, kslot, vspec, opi, imm=False):
        """vspec: ["fresh", written] | ["own-key"] | ["key", j] | ["eph", f] -- resolved against the CURRENT slots, so a shrunk history
        (where the operation that filled a slot is gone and the slot holds #f) is judged as what it now is"""
        key = self.key.get(kslot) if kslot is not None else None
        refs, erefs, written = [], [], None
        if vspec[0] == "fresh":
            written = vspec[1]
        elif vspec[0] == "own-key":
            refs = [key] if key is not None else []
        elif vspec[0] == "key":
            k2 = self.key.get(vspec[1])
            refs = [k2] if k2 is not None else []
        elif vspec[0] == "eph":
            e2 = self.eph.get(vspec[1])
            erefs = [e2] if e2 is not None else []
        eid = self.new_id()
        self.eobj[eid] = {"key": key, "refs": refs, "erefs": erefs, "written": written, "created": opi, "kslot": kslot, "imm": imm}
        self.eph[slot] = eid
        return eid

    def reach(self):
        alive = set(self.key.values())
        ealive = set(self.eph.values())
        changed = True
        while changed:
            changed = False
            for eid in list(ealive):
                e = self.eobj[eid]
                if e["key"] is None or e["key"] in alive:
                    for k in e["refs"]:
                        if k not in alive:
                            alive.add(k)
                            changed = True
                    for x in e["erefs"]:
                        if x not in ealive:
                            ealive.add(x)
                            changed = True
        return alive

    def update(self, opi):
        now = self.reach()
        for k in self.keys:
            if k in now:
                self.dead_since.pop(k, None)
            elif k not in self.dead_since:
                self.dead_since[k] = opi
        self.alive = now


def gen_history(rng):
    """Returns list of (scheme-or-op, kind, info). The model is replayed in execute() to judge results."""
    ops = []
    n = rng.range(8, 60)
    m = Model()
    focus = rng.weighted([("eph", 5), ("ports", 3), ("mixed", 3)])
    for opi in range(n):
        choices = []
        if focus in ("eph", "mixed"):
            choices += [("mk-key", 4), ("unroot", 3), ("mk-eph", 5), ("drop-eph", 1), ("gc", 4), ("query", 5), ("holes", 2), ("motif", 2)]
        if focus in ("ports", "mixed"):
            choices += [("open", 4), ("read", 3), ("close", 2), ("drop-port", 3), ("fdcount", 3), ("gc", 3)]
        op = rng.weighted(choices)
        if op == "motif":
            # short scripted sequences (made of the same operations, so the model follows them) for situations random histories reach
            # only rarely: (1) an ephemeron whose value IS another key that is rooted elsewhere, the first key released and collected
            # while the value is still held, then the value released; (2) a three-link chain built in a fragmented heap with large
            # values, later links allocated first, and only the head key kept
            def mk_key(i, big=False):
                expr, _w = key_expr(rng, i)
                if big:
                    expr = "(make-vector 40 'k%d-%d)" % (i, rng.below(1000))
                m.add_key(i)
                ops.append({"src": "(vector-set! K %d %s) #t" % (i, expr), "kind": "mk-key", "slot": i})

            def mk_eph(e, i, vexpr, vspec):
                m.add_eph(e, i, vspec, opi)
                ops.append({"src": "(vector-set! E %d (make-ephemeron (vector-ref K %d) %s)) #t" % (e, i, vexpr), "kind": "mk-eph", "slot": e, "kslot": i, "vspec": vspec})

            def unroot(i):
                m.key.pop(i, None)
                ops.append({"src": "(vector-set! K %d #f) #t" % i, "kind": "unroot", "slot": i})

            def gc_and_look(es):
                ops.append({"op": "gc", "kind": "gc"})
                for e in es:
                    ops.append(query_op(e))
            ks = rng.sample(list(range(NK)), 3)
            es = rng.sample(list(range(NE)), 3)
            if rng.chance(1, 2):
                a, b = ks[0], ks[1]
                mk_key(a); mk_key(b)
                mk_eph(es[0], a, "(vector-ref K %d)" % b, ["key", b])
                tag = "v%d" % rng.below(100000)
                mk_eph(es[1], b, "(list '%s (string-append \"s\" \"%s\"))" % (tag, tag), ["fresh", '(%s "s%s")' % (tag, tag)])
                unroot(a)
                gc_and_look([es[0], es[1]])
                unroot(b)
                gc_and_look([es[1], es[0]])
                if rng.chance(1, 2):
                    gc_and_look([es[1]])
            else:
                a, b, c = ks
                ops.append({"src": "(set! H (let loop ((i 0) (acc '())) (if (= i %d) acc (begin (cons 'junk i) (loop (+ i 1) (cons i acc)))))) #t" % rng.choice([300, 2000]), "kind": "holes"})
                ops.append({"op": "gc", "kind": "gc"})
                mk_key(a); mk_key(b, rng.chance(1, 2)); mk_key(c, rng.chance(1, 2))
                tag = "v%d" % rng.below(100000)
                mk_eph(es[2], c, "(list '%s (string-append \"s\" \"%s\"))" % (tag, tag), ["fresh", '(%s "s%s")' % (tag, tag)])
                mk_eph(es[1], b, "(make-vector 60 (vector-ref K %d))" % c, ["key", c])
                mk_eph(es[0], a, "(make-vector 60 (vector-ref K %d))" % b, ["key", b])
                unroot(b); unroot(c)
                gc_and_look([es[0], es[1], es[2]])
                if rng.chance(1, 2):
                    ops.append({"src": "(set! H #f) #t", "kind": "holes"})
                    gc_and_look([es[2], es[1]])
            continue
        if op == "mk-key":
            i = rng.below(NK)
            expr, written = key_expr(rng, i)
            m.add_key(i)
            ops.append({"src": "(vector-set! K %d %s) #t" % (i, expr), "kind": "mk-key", "slot": i})
        elif op == "unroot":
            if not m.key:
                continue
            # prefer keys that some ephemeron's value refers to: after the unroot they are held only through that value
            chained = sorted(sl for sl, kid in m.key.items() if any(kid in e["refs"] for e in m.eobj.values()))
            i = rng.choice(chained) if chained and rng.chance(2, 3) else rng.choice(sorted(m.key))
            del m.key[i]
            ops.append({"src": "(vector-set! K %d #f) #t" % i, "kind": "unroot", "slot": i})
        elif op == "mk-eph" and (not m.key or rng.chance(1, 8)):
            # an ephemeron whose key is not a heap object (fixnum, boolean, character, empty list): the key can never die, so the
            # value must be kept for as long as the ephemeron is -- also when no ephemeron with a heap key has ever been made
            e = rng.below(NE)
            tag = "v%d" % rng.below(100000)
            imm = rng.choice(["0", "42", "-7", "#t", "#\\a", "'()"])
            m.add_eph(e, None, ["fresh", '(%s "s%s")' % (tag, tag)], opi, imm=True)
            ops.append({"src": "(vector-set! E %d (make-ephemeron %s (list '%s (string-append \"s\" \"%s\")))) #t" % (e, imm, tag, tag), "kind": "mk-eph",
                        "slot": e, "kslot": None, "vspec": ["fresh", '(%s "s%s")' % (tag, tag)], "imm": True})
        elif op == "mk-eph":
            if not m.key:
                continue
            e = rng.below(NE)
            i = rng.choice(sorted(m.key))
            vk = rng.weighted([(0, 2), (1, 1), (2, 4), (3, 2), (4, 1), (5, 3)])
            tag = "v%d" % rng.below(100000)
            if vk == 0:
                vexpr, vspec = '(list \'%s (string-append "s" "%s"))' % (tag, tag), ["fresh", '(%s "s%s")' % (tag, tag)]
            elif vk == 1:
                vexpr, vspec = "(list '%s (vector-ref K %d))" % (tag, i), ["own-key"]
            elif vk == 2 and len(m.key) >= 2:
                j = rng.choice([x for x in sorted(m.key) if x != i])
                vexpr, vspec = "(vector-ref K %d)" % j, ["key", j]
            elif vk == 5 and len(m.key) >= 2:
                # a large fresh value that refers to another key: in a fragmented heap it lands ABOVE the (pair-sized) ephemeron
                j = rng.choice([x for x in sorted(m.key) if x != i])
                vexpr, vspec = "(make-vector 60 (vector-ref K %d))" % j, ["key", j]
            elif vk == 3 and m.eph:
                # the value is an ephemeron object itself (often the one this slot held until now: it stays reachable only through the new one)
                f = e if (e in m.eph and rng.chance(1, 2)) else rng.choice(sorted(m.eph))
                vexpr, vspec = "(vector-ref E %d)" % f, ["eph", f]
            else:
                vexpr, vspec = "(make-vector 3 '%s)" % tag, ["fresh", "#(%s %s %s)" % (tag, tag, tag)]
            m.add_eph(e, i, vspec, opi)
            ops.append({"src": "(vector-set! E %d (make-ephemeron (vector-ref K %d) %s)) #t" % (e, i, vexpr), "kind": "mk-eph", "slot": e,
                        "kslot": i, "vspec": vspec})
        elif op == "holes":
            # fragment the heap: pair-sized holes between pair-sized live objects (ephemerons are pair-sized), then a collection
            ops.append({"src": "(set! H (let loop ((i 0) (acc '())) (if (= i %d) acc (begin (cons 'junk i) (loop (+ i 1) (cons i acc)))))) #t" % rng.choice([50, 300, 2000]),
                        "kind": "holes"})
            ops.append({"op": "gc", "kind": "gc"})
        elif op == "drop-eph":
            if not m.eph:
                continue
            e = rng.choice(sorted(m.eph))
            del m.eph[e]
            ops.append({"src": "(vector-set! E %d #f) #t" % e, "kind": "drop-eph", "slot": e})
        elif op == "gc":
            ops.append({"op": "gc", "kind": "gc"})
            if m.eph and rng.chance(1, 2):
                # look at every ephemeron right after the collection
                for e in sorted(m.eph):
                    ops.append(query_op(e))
        elif op == "query":
            if not m.eph:
                continue
            e = rng.choice(sorted(m.eph))
            ops.append(query_op(e))
        elif op == "open":
            p = rng.below(NP)
            kind = rng.weighted([("file-in", 4), ("file-out", 2), ("fd-in", 2), ("fd-in-noclose", 1), ("fd-shared", 2)])
            many = 0
            if kind == "file-in":
                src = '(vector-set! P %d (open-input-file "%s")) #t' % (p, README)
            elif kind == "file-out":
                src = '(vector-set! P %d (open-output-file "/dev/null")) #t' % p
            elif kind == "fd-in":
                src = "(vector-set! P %d (open-input-file-descriptor (sim-open-fd #f))) #t" % p
            elif kind == "fd-in-noclose":
                src = "(vector-set! P %d (open-input-file-descriptor (sim-open-fd #t))) #t" % p
            else:
                # two held ports on one fileno; sometimes hundreds more ports on the same fileno that are dropped at once (a per-request port on a
                # long-lived descriptor): the descriptor belongs to the held ones whatever the number of sharers was
                many = rng.choice([0, 0, 0, 253, 254, 255, 256, 300, 600])
                extra = " (do ((i 0 (+ i 1))) ((= i %d)) (open-input-file-descriptor f))" % many if many else ""
                src = ("(let ((f (sim-open-fd #f))) (vector-set! P %d (open-input-file-descriptor f)) (vector-set! P %d (open-input-file-descriptor f))%s) #t"
                       % (p, (p + 1) % NP, extra))
            ops.append({"src": src, "kind": "open", "slot": p, "pkind": kind})
            if kind == "fd-shared" and many:
                ops[-1]["many"] = many
        elif op == "read":
            ops.append({"src": "(let ((p (vector-ref P %d))) (if (and p (input-port? p) (input-port-open? p)) (let ((c (read-char p))) (or (char? c) (eof-object? c))) 'skip))" % rng.below(NP), "kind": "read"})
        elif op == "close":
            ops.append({"src": "(let ((p (vector-ref P %d))) (if p (close-port p)) #t)" % rng.below(NP), "kind": "close", "slot": None})
            ops[-1]["slot"] = int(ops[-1]["src"].split("(vector-ref P ")[1].split(")")[0])
        elif op == "drop-port":
            p = rng.below(NP)
            ops.append({"src": "(vector-set! P %d #f) #t" % p, "kind": "drop-port", "slot": p})
        elif op == "fdcount":
            ops.append({"op": "fdcount", "kind": "fdcount"})
    return ops, focus


def generate(rng, tier, index, seed):
    ops, focus = gen_history(rng.fork("hist"))
    tail = rng.weighted([("none", 3), ("exhaust", 2), ("destroy", 2)])
    knobs = {}
    nofile = 0
    if tail == "exhaust" or rng.chance(1, 3):
        nofile = rng.range(24, 64)
    if tail == "destroy" or nofile:
        knobs = {"fresh_ctx": True, "imports": ["(chibi weak)", "(only (chibi) open-input-file-descriptor)"], "heap": rng.choice([0, 1024 * 1024])}
        if nofile:
            knobs["nofile"] = nofile
    if tail == "exhaust":
        nf = nofile
        ops.append({"src": "(do ((i 0 (+ i 1))) ((= i %d) 'opened-all) (open-input-file \"%s\"))" % (nf * 10, README), "kind": "exhaust"})
        ops.append({"op": "gc", "kind": "gc"})
        ops.append({"op": "fdcount", "kind": "fdcount"})
    if tail == "destroy":
        ops.append({"op": "destroy", "kind": "destroy"})
        ops.append({"op": "fdcount", "kind": "fdcount-final"})
    if focus != "eph" and rng.chance(1, 2):
        # fault: some close() calls release the descriptor but report EINTR / EIO (what Linux does when a signal or a deferred write error
        # arrives during close): the owner must still count the descriptor as released -- exactly once
        knobs = dict(knobs)
        knobs["close_fail"] = sorted(set(rng.below(12) for _ in range(rng.range(1, 6))))
    mode = rng.weighted([("none", 3), ("bernoulli", 3), ("every", 1)])
    gc = {"mode": mode, "heapcheck_every": rng.choice([0, 1]), "max_forced": 300}
    if mode == "bernoulli":
        gc["p1024"] = rng.choice([4, 32, 128])
        gc["seed"] = rng.below(1 << 30)
    elif mode == "every":
        gc["n"] = rng.choice([1, 5, 50])
    return {"prop": ID, "index": index, "seed": seed, "config": "asan" if rng.chance(1, 10) else "sim",
            "meta": {"family": focus + "-" + tail}, "ops": ops, "gc": gc, "knobs": knobs}


def plan_of(case):
    steps = [{"op": "eval", "src": PRELUDE}]
    for o in case["ops"]:
        if "src" in o:
            steps.append({"op": "eval", "src": o["src"]})
        else:
            steps.append({"op": o["op"]})
    return {"id": 1, "steps": steps, "gc": case["gc"], "knobs": case["knobs"], "sched": {"default_q": 500, "tick_budget": 20000000}}


def judge(case, res):
    """Replays the model over the operations and the recorded results."""
    V = []
    steps = res["steps"][1:]
    m = Model()
    checks = 0
    forced_inside = case["gc"]["mode"] != "none"
    # ports / descriptor model: a descriptor is owned by 1..2 ports; it must be open while an owner is held open,
    # may stay open until the next full collection after its last owner was dropped, and must be closed afterwards
    ports = {}            # slot -> {"open": bool, "desc": id}
    descs = {}            # id -> {"live": n, "orphan_ops": [op index of drops], "noclose": bool, "released": bool}
    last_gc = -1

    def release_ref(did, opi, dropped):
        d = descs[did]
        d["live"] -= 1
        if dropped:
            d["orphan_ops"].append(opi)
        elif d["live"] == 0 and not d["orphan_ops"]:
            d["released"] = True

    def port_drop(slot, opi):
        p = ports.pop(slot, None)
        if p and p["open"]:
            release_ref(p["desc"], opi, True)

    def bounds():
        lo = hi = 0
        for d in descs.values():
            if d["noclose"]:
                lo += 1
                hi += 1
            elif d["released"]:
                pass
            elif d["live"] > 0:
                lo += 1
                hi += 1
            else:
                hi += 1
        return lo, hi

    def collect(opi):
        for d in descs.values():
            if d["orphan_ops"] and all(x < opi for x in d["orphan_ops"]):
                d["orphan_ops"] = []
                if d["live"] == 0:
                    d["released"] = True

    for opi, (o, s) in enumerate(zip(case["ops"], steps)):
        kind = o["kind"]
        if s["exc"] and kind not in ("fdcount", "fdcount-final"):
            V.append(Verdict("op-error", "operation %d (%s) raised: %s" % (opi, kind, s["res"][:200]), {"kind": kind}))
            return V, checks
        if kind == "mk-key":
            m.add_key(o["slot"])
        elif kind == "unroot":
            m.key.pop(o["slot"], None)
        elif kind == "mk-eph":
            m.add_eph(o["slot"], o["kslot"], o["vspec"], opi, imm=bool(o.get("imm")))
        elif kind == "drop-eph":
            m.eph.pop(o["slot"], None)
        elif kind == "gc":
            last_gc = opi
            collect(opi)
            m.update(opi)
            m.last_gc = opi
            continue
        elif kind == "query":
            eid = m.eph.get(o["slot"])
            e = m.eobj.get(eid) if eid is not None else None
            if e is not None and e["key"] is None and e.get("imm"):
                # made with a true immediate key: never broken, value retained
                checks += 1
                r = s["res"]
                want = '"%s"' % e["written"].replace("\\", "\\\\").replace('"', '\\"')
                parts = r[1:-1].split(" ", 2)
                if r.startswith("(#t") or len(parts) < 3 or parts[2] != want:
                    V.append(Verdict("eph:value-not-retained", "op %d: ephemeron with an immediate key: query says %s, value was created as %s" % (opi, r[:120], want), {"how": "immediate-key"}))
                e = None
            if e is not None and e["key"] is None:
                e = None    # key slot was empty (#f) when it was made: nothing to say about "broken"; it still counts for reachability
            if e is not None:
                checks += 1
                m.update(opi)
                r = s["res"]
                alive = e["key"] in m.alive
                if alive:
                    slots = [sl for sl, kid in m.key.items() if kid == e["key"]]
                    # (a) never early
                    if r.startswith("(#t"):
                        V.append(Verdict("eph:broken-early", "op %d: ephemeron %d reported broken but its key is strongly reachable (%s); result %s"
                                         % (opi, o["slot"], "rooted in K" if slots else "through another ephemeron's value", r[:120]),
                                         {"how": "rooted" if slots else "via-value"}))
                    else:
                        parts = r[1:-1].split(" ", 2)
                        if slots and parts[1] != str(slots[0]) and parts[1] not in [str(x) for x in slots]:
                            V.append(Verdict("eph:wrong-key", "op %d: ephemeron-key is not the original key object: %s" % (opi, r[:120]), {}))
                        if e["written"] is not None:
                            want = '"%s"' % e["written"].replace("\\", "\\\\").replace('"', '\\"')
                            if len(parts) < 3 or parts[2] != want:
                                V.append(Verdict("eph:value-not-retained", "op %d: key alive (%s) but ephemeron-value printed %s, created as %s"
                                                 % (opi, "rooted" if slots else "via value", parts[2][:100] if len(parts) > 2 else r[:100], want),
                                                 {"how": "rooted" if slots else "via-value"}))
                else:
                    # (b) promptly: dead for at least one complete op before the last forced collection, and that collection happened after
                    since = m.dead_since.get(e["key"], opi)
                    lg = getattr(m, "last_gc", -1)
                    if lg > since and lg > e["created"] and lg - since >= 1:
                        if not r.startswith("(#t #f"):
                            V.append(Verdict("eph:not-broken", "op %d: key unreachable since op %d, full collection at op %d, but query says %s"
                                             % (opi, since, lg, r[:120]), {}))
        elif kind == "open":
            did = len(descs)
            slots = [o["slot"]] + ([(o["slot"] + 1) % NP] if o["pkind"] == "fd-shared" else [])
            for sl in slots:
                port_drop(sl, opi)
            # (the extra ports of a many-sharers open are dropped inside the operation itself: they own the descriptor until collected)
            descs[did] = {"live": len(slots), "orphan_ops": [opi] if o.get("many") else [], "noclose": o["pkind"] == "fd-in-noclose", "released": False}
            for sl in slots:
                ports[sl] = {"open": True, "desc": did}
        elif kind == "read":
            checks += 1
            if s["res"] not in ("#t", "skip"):
                V.append(Verdict("port:unreadable", "op %d: a port the program still holds could not be read: %s" % (opi, s["res"][:120]), {}))
        elif kind == "close":
            p = ports.get(o["slot"])
            if p and p["open"]:
                p["open"] = False
                release_ref(p["desc"], opi, False)
        elif kind == "drop-port":
            port_drop(o["slot"], opi)
        elif kind == "exhaust":
            checks += 1
            if s["res"] != "opened-all":
                V.append(Verdict("fd:exhausted", "dropping unclosed ports ran out of descriptors: %s" % s["res"][:200], {}))
        elif kind == "destroy":
            if s["res"] != "destroyed":
                V.append(Verdict("destroy-failed", s["res"], {}))
        elif kind in ("fdcount", "fdcount-final"):
            checks += 1
            try:
                n = int(s["res"])
            except ValueError:
                continue
            lo, hi = bounds()
            if kind == "fdcount-final":
                want = sum(1 for d in descs.values() if d["noclose"])
                if n != want:
                    V.append(Verdict("fd:leak-after-destroy", "after sexp_destroy_context %d descriptors remain open (no-close ones expected: %d)" % (n, want), {}))
            else:
                if n < lo:
                    V.append(Verdict("fd:closed-while-owner-alive", "op %d: %d descriptors open but at least %d are owned by ports the program still holds open (or are no-close)"
                                     % (opi, n, lo), {}))
                elif n > hi:
                    V.append(Verdict("fd:not-released", "op %d: %d descriptors open; at most %d can be (held ports + dropped-but-not-yet-collected)" % (opi, n, hi), {}))
        if kind == "exhaust":
            # the loop's ports are all dropped inside the operation
            pass
        m.update(opi)
    return V, checks


def execute(case, run):
    oc = Outcome()
    oc.case = case
    res = run(case["config"], plan_of(case))
    ip = infra_problem(res)
    if ip:
        oc.infra = ip
        return oc
    oc.result = res
    oc.trace = res.get("ev_hash", "") or res.get("status", "")
    oc.verdicts = crash_verdicts(res, "history")
    if res.get("status") == "ok":
        if res["steps"][0]["exc"]:
            oc.verdicts.append(Verdict("setup-error", res["steps"][0]["res"][:300], {}))
            return oc
        v, checks = judge(case, res)
        oc.verdicts += v
        st = res["stats"]
        cnt = res.get("counters", {})
        oc.fired = {"forced_collection": st["gc_forced"], "natural_collection": st["gc_natural"], "emfile_retry": cnt.get("fopen_emfile", 0),
                    "descriptor_limit_lowered": 1 if case["knobs"].get("nofile") else 0, "close_reported_failure": cnt.get("close_reported_failure", 0),
                    "context_destroyed": 1 if any(o["kind"] == "destroy" for o in case["ops"]) else 0}
        oc.stats = {"sim_us": st["sim_us"], "allocs": st["allocs"], "model_checks": checks, "fopen": cnt.get("fopen_ok", 0), "fclose": cnt.get("fclose", 0), "close": cnt.get("close", 0)}
        oc.nontrivial = st["gc_forced"] >= 2 and checks >= 1
    return oc


def sample(case, oc):
    return {"family": case["meta"]["family"], "config": case["config"], "gc": case["gc"], "knobs": case["knobs"],
            "ops": [o.get("src", o.get("op"))[:140] for o in case["ops"]][:40], "model_checks": oc.stats.get("model_checks"), "trace": oc.trace}


def shrink(case):
    ops = case["ops"]
    for cand in shrink_list(ops, 1):
        c = copy.deepcopy(case)
        c["ops"] = cand
        yield c
    if case["gc"]["mode"] != "none":
        c = copy.deepcopy(case)
        c["gc"] = {"mode": "none", "heapcheck_every": 0}
        yield c
    if case["knobs"].get("nofile") and not any(o["kind"] == "exhaust" for o in ops):
        c = copy.deepcopy(case)
        c["knobs"].pop("nofile")
        yield c


DESIGN_REF = "DESIGN.md section 5, C16"
LEVEL_TEXT = ("Seeded search over histories x collection points x descriptor limits, judged by an executable reachability model of ephemerons "
              "(value edges count only while the key is alive) and of descriptor ownership; every release goes through interposed "
              "fopen/fclose/close so exactly-once and never-while-owned are history checks. Exploration: histories and schedules are sampled.")
LEVEL_NOTE = ("Promptness is asserted only where the model can be sure no hidden strong holder exists (last holder was the roots vector, one complete "
              "operation before a forced full collection). Trusts the interposed libc wrappers as the definition of 'released'.")
