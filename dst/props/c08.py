"""C08 -- external representations round-trip under every delivery schedule; both reader/writer pairs agree (stream part)."""
import copy
import struct
import threading

from .. import streams as st
from ..common import plan_hash
from ..engine import loss_shape, Outcome, Verdict, crash_verdicts, infra_problem, shrink_list

ID = "C08"
RULE = ("case = data tree (depth <= 6 over fixnums, bignums, ratios, complex, flonums incl. subnormals/boundary powers/+-inf/NaN/-0.0, chars "
        "and strings mixing 1-4-byte scalars and escapes, symbols needing |..|, booleans, lists, vectors, bytevectors, shared (in car and in tail position, chained) and circular "
        "structure with <= 6 labels) x writer {native C write, (scheme write) write / write-shared (SRFI 38)} x reader {native C read, "
        "(scheme read) (SRFI 38)} x world (sink and source are simulated streams of three kinds with chunk tapes: 1-byte delivery, "
        "boundaries inside tokens / UTF-8 sequences / labels / escapes, would-block with later readiness, EOF at datum end; small-buffer "
        "variant; forced collections). No-fault oracle: sink bytes identical to the same writer's string-port text for every acceptance "
        "schedule; read(text) equal? to the original (flonums by eqv?, i.e. bit pattern) for both readers; re-writing what was read gives "
        "the same text (sharing preserved); next read returns eof. Fault batch (kept separate): the stored text is truncated / bit-flipped "
        "/ has bytes dropped or inserted; each reader must return a datum or raise, within the tick budget. Non-trivial: text >= 8 bytes "
        "and at least one short transfer or would-block fired (no-fault) or the corruption changed the outcome (fault batch); "
        "distinct = event-log hash.")
ASSUMPTIONS = [
    "which values are written is sampled (the 15/16/17-digit float path, symbol quoting, every Unicode scalar are value-specific and not enumerated)",
    "descriptor sinks under back-pressure are a recorded finding (F9) and only a minority of descriptor sinks get short/would-block tapes",
    "on corrupted text the two readers need not agree; only value-or-error, termination and memory safety are asserted",
]
COMPONENTS = {"real": ["sexp_write / sexp_read (sexp.c)", "SRFI 38 reader and writer (Scheme, char-by-char over ports)", "number->string / string->number paths used by both",
                       "port buffering (refill, push-back, flush) for three port kinds", "scheduler blocking on descriptors", "collector"],
              "stub": ["byte delivery/acceptance schedule", "stored text corruption", "collection schedule", "clock"]}
BUDGET = {"quick": {"seconds": 55, "cases": 8000, "min_cases": 500}, "thorough": {"seconds": 1200, "cases": 600000}}
IMPORTS = ["(srfi 18)", "(chibi io)", "(srfi 38)", "(scheme write)", "(scheme read)", "(scheme complex)",
           "(rename (only (chibi) write read) (write native-write) (read native-read))"]
CONFIGS = {
    "sim": {"variant": "sim", "imports": IMPORTS, "timeout_ms": 60000},
    "tiny": {"variant": "tiny", "imports": IMPORTS, "timeout_ms": 60000},
    "asan": {"variant": "asan", "imports": IMPORTS, "timeout_ms": 180000},
}
PRELUDE = st.SCHEME_PRELUDE + r"""
(define (cons* x . r) (if (null? r) x (cons x (apply cons* r))))
(define (last-pair* l n) (if (and (pair? (cdr l)) (> n 0)) (last-pair* (cdr l) (- n 1)) l))
(define (to-text writer x) (let ((o (open-output-string))) (writer x o) (get-output-string o)))
(define (first-diff-aux x y d skip-flo)
  (cond ((> d 60) #f)
        ((and (pair? x) (pair? y)) (or (first-diff-aux (car x) (car y) (+ d 1) skip-flo) (first-diff-aux (cdr x) (cdr y) (+ d 1) skip-flo)))
        ((and (vector? x) (vector? y) (= (vector-length x) (vector-length y)))
         (let loop ((i 0)) (if (= i (vector-length x)) #f (or (first-diff-aux (vector-ref x i) (vector-ref y i) (+ d 1) skip-flo) (loop (+ i 1))))))
        ((equal? x y) #f)
        ((and skip-flo (real? x) (inexact? x) (real? y) (inexact? y)) #f)
        (else (list (cond ((and (real? x) (inexact? x)) 'flonum) ((number? x) 'number) ((char? x) 'char) ((string? x) 'string) ((symbol? x) 'symbol) (else 'other))
                    x y (if (and (real? x) (inexact? x) (= x x) (< (abs x) +inf.0)) (exact x) 'na)))))
; a difference that is not one between two flonums comes first (a mis-read flonum -- recorded finding F10 -- must not hide another leaf)
(define (first-diff x y d) (or (first-diff-aux x y d #t) (first-diff-aux x y d #f)))
(define (try-read reader p) (call/cc (lambda (k) (with-exception-handler (lambda (e) (k (list 'read-error))) (lambda () (list 'ok (reader p)))))))
"""

SPECIAL_FLOATS = ["+inf.0", "-inf.0", "+nan.0", "-0.0", "0.0", "5e-324", "2.2250738585072014e-308", "2.225073858507201e-308", "1.7976931348623157e308",
                  "0.1", "1e21", "1e22", "1e23", "9007199254740993.0", "4.35", "0.3", "123456789012345680.0", "1e-7", "5e-5"]


SAFE_FLOATS = ["1.5", "-0.25", "2.0", "-0.0", "0.0", "1024.5", "+inf.0", "-inf.0", "0.1", "-3.75"]


def gen_float(rng, safe=False):
    if safe:
        return rng.choice(SAFE_FLOATS)
    if rng.chance(1, 3):
        return rng.choice(SPECIAL_FLOATS)
    bits = rng.below(1 << 64)
    if rng.chance(1, 4):
        # half-precision-seeded: few significant bits
        bits = (rng.below(1 << 16) << 48)
    f = struct.unpack("<d", struct.pack("<Q", bits))[0]
    if f != f:
        return "+nan.0"
    if f in (float("inf"), float("-inf")):
        return "+inf.0" if f > 0 else "-inf.0"
    return repr(f)


def gen_scalar_cp(rng):
    return rng.weighted([(rng.range(0x20, 0x7e), 6), (rng.range(0, 0x1f), 1), (0x7f, 1), (rng.range(0x80, 0x7ff), 2), (rng.range(0x800, 0xd7ff), 2),
                         (rng.range(0xe000, 0xffff), 1), (rng.range(0x10000, 0x10ffff), 2), (rng.choice([0x22, 0x5c, 0x7c, 0x0a, 0x09, 0x80, 0x3bb]), 3),
                         # the first and last code point of every encoding-width and hex-digit-count class, and the surrogate gap's edges
                         (rng.choice([0x0, 0x1, 0xf, 0x10, 0x1f, 0x20, 0x7e, 0x7f, 0x80, 0xff, 0x100, 0x7ff, 0x800, 0xfff, 0x1000, 0xd7ff, 0xe000, 0xfffd, 0xffff,
                                      0x10000, 0x10001, 0xfffff, 0x100000, 0x10fffe, 0x10ffff]), 3)])


def gen_string_expr(rng, n=None):
    n = n if n is not None else rng.weighted([(rng.range(0, 8), 6), (rng.range(100, 400), 1)])
    return "(list->string (map integer->char '(%s)))" % " ".join(str(gen_scalar_cp(rng)) for _ in range(n))


def gen_symbol_expr(rng):
    k = rng.below(6)
    if k == 0:
        return "'" + rng.choice(["foo", "bar-baz", "x1", "+", "...", "a.b", "<=?", "->x"])
    if k == 1:
        return '(string->symbol %s)' % rng.choice(['""', '"hello world"', '"a(b"', '"1"', '"+1"', '"."', '"#foo"', '"a|b"', '"a\\\\b"', '"A"', '"1e5"', '"-"', '"x;y"', "\"'q\""])
    return "(string->symbol %s)" % gen_string_expr(rng, rng.range(1, 6))


def gen_number_expr(rng, safe=False):
    k = rng.below(8)
    if k == 0:
        return str(rng.choice([0, 1, -1, 42, (1 << 61) - 1, -(1 << 61), 1 << 62, -(1 << 62) - 1]))
    if k == 1:
        v = rng.below(1 << rng.choice([64, 65, 128, 300]))
        return str(-v if rng.chance(1, 2) else v)
    if k == 2:
        return "%d/%d" % (rng.range(-(1 << 70), 1 << 70), rng.range(1, 1 << 40))
    if k == 3:
        # (while findings F10 and F12 were open, complex parts were restricted to short exact decimals and NaN parts were rare)
        im = "+nan.0" if rng.chance(1, 10) else rng.choice(["1", "-3/4", gen_float(rng, safe), gen_float(rng, safe)])
        return "(make-rectangular %s %s)" % (rng.choice(["1", "-2", "1/2", gen_float(rng, safe), gen_float(rng, safe)]), im)
    return gen_float(rng, safe)


def gen_tree(rng, depth, safe=False):
    if depth <= 0 or rng.chance(3, 10):
        k = rng.below(8)
        if k <= 2:
            return gen_number_expr(rng, safe)
        if k == 3:
            # a character datum has its own external syntax (names, hex forms of 1-6 digits): class edges get half of the draws
            if rng.chance(1, 2):
                return "(integer->char %d)" % rng.choice([0x0, 0x7, 0x8, 0x9, 0xa, 0xd, 0x1b, 0x1f, 0x20, 0x7e, 0x7f, 0x80, 0xa0, 0xff, 0x100, 0x7ff, 0x800, 0xfff, 0x1000,
                                                          0xd7ff, 0xe000, 0xfffd, 0xfffe, 0xffff, 0x10000, 0x10001, 0xfffff, 0x100000, 0x10fffe, 0x10ffff])
            return "(integer->char %d)" % gen_scalar_cp(rng)
        if k == 4:
            return gen_string_expr(rng)
        if k == 5:
            return gen_symbol_expr(rng)
        if k == 6:
            return rng.choice(["#t", "#f", "'()"])
        return "(bytevector %s)" % " ".join(str(rng.below(256)) for _ in range(rng.range(0, 6)))
    k = rng.below(4)
    items = [gen_tree(rng, depth - 1, safe) for _ in range(rng.range(0, 4))]
    if k <= 1:
        return "(list %s)" % " ".join(items)
    if k == 2:
        return "(vector %s)" % " ".join(items)
    if len(items) >= 2:
        return "(cons* %s)" % " ".join(items)
    return "(list %s)" % " ".join(items)


def gen_graph(rng):
    """shared / circular structure with up to 6 labels"""
    if rng.chance(1, 3):
        # motif: labelled objects chained through their tails (a shared tail whose own tail is shared, ...), optionally closed into a cycle
        # through all of them, optionally ending in a shared non-list (dotted shared tail)
        n = rng.range(2, 5)
        binds = ["(s%d %s)" % (i, rng.choice(["(list 'x)", "(cons 'p 'q)", "(list 'y 'z)", "(list 1 2 3)"])) for i in range(n)]
        end = rng.below(3)
        if end == 1:
            binds[-1] = "(s%d %s)" % (n - 1, rng.choice(["(vector 'a 'b)", '(string-append "sh" "ared")']))
        body = ["(set-cdr! (last-pair* s%d 8) s%d)" % (i, i + 1) for i in range(n - 1)]
        if end == 2:
            body.append("(set-cdr! (last-pair* s%d 8) s0)" % (n - 1))
        order = list(range(n))
        rng.shuffle(order)
        refs = " ".join("s%d" % i for i in order[:rng.range(1, n)] + [rng.below(n) for _ in range(rng.below(3))])
        return "(let* (%s) %s (list %s %s))" % (" ".join(binds), " ".join(body), refs, gen_tree(rng, 1, False)), True
    n = rng.range(1, 5)
    binds = []
    for i in range(n):
        binds.append("(s%d %s)" % (i, rng.choice(["(list 1 2 3)", "(vector 'a 'b)", '(string-append "sh" "ared")', "(list (list 'deep))", "(cons 'p 'q)", "(list 'x)", "(list 'y 'z)"])))
    body = []
    cyc = False
    for i in range(n):
        c = rng.below(7)
        if c == 0 and i > 0:
            body.append("(if (pair? s%d) (set-car! s%d s%d))" % (i, i, i - 1))
        elif c == 1:
            body.append("(if (and (pair? s%d) (pair? (cdr s%d)) (pair? (cddr s%d))) (set-cdr! (cddr s%d) s%d))" % (i, i, i, i, i))
            cyc = True
        elif c == 2:
            body.append("(if (vector? s%d) (vector-set! s%d 1 s%d))" % (i, i, i))
            cyc = True
        elif c >= 3 and n > 1:
            # sharing in tail position: the end of one list is another labelled object (a list: a shared tail, possibly with a shared tail of
            # its own; a vector or string: a shared dotted tail); towards a later node this can close a cycle through several nodes
            j = rng.below(n)
            if j != i:
                body.append("(if (pair? s%d) (set-cdr! (last-pair* s%d 8) s%d))" % (i, i, j))
    refs = " ".join("s%d" % rng.below(n) for _ in range(rng.range(2, 6)))
    extra = gen_tree(rng, 2, False)
    return "(let* (%s) %s (list %s %s))" % (" ".join(binds), " ".join(body), refs, extra), True


def generate(rng, tier, index, seed):
    fault = rng.chance(1, 4)
    graph = rng.chance(1, 5)
    if graph:
        expr, cyc = gen_graph(rng.fork("data"))
    else:
        expr, cyc = gen_tree(rng.fork("data"), rng.range(1, 6)), False
        if rng.chance(1, 3):
            # plus a run of atoms whose external syntax has value-specific paths: characters at the edges of every name / hex-width /
            # encoding-width class, symbols that look like other tokens, numbers at representation edges
            er = rng.fork("edges")
            edge_chars = [0x0, 0x7, 0x8, 0x9, 0xa, 0xd, 0x1b, 0x1f, 0x20, 0x7e, 0x7f, 0x80, 0xa0, 0xff, 0x100, 0x7ff, 0x800, 0xfff, 0x1000,
                          0xd7ff, 0xe000, 0xfffd, 0xfffe, 0xffff, 0x10000, 0x10001, 0xfffff, 0x100000, 0x10fffe, 0x10ffff]
            edge_syms = ['"`a"', '"`"', '".5"', '"."', '".."', '"+1"', '"-"', '"1+"', '"+i"', '"-inf.0"', '"+nan.0x"', '"#foo"', '"a|b"', '""', '"a b"', '"A"', '"1/2"', '"1e5"', '","', '"\\""']
            atoms = ["(integer->char %d)" % c for c in er.sample(edge_chars, 10)] + ["(string->symbol %s)" % y for y in er.sample(edge_syms, 4)]
            expr = "(list %s (vector %s))" % (expr, " ".join(atoms))
    writer = rng.choice(["write", "write-shared"]) if cyc else rng.choice(["native-write", "write", "write-shared", "write-simple"])
    cfg = rng.weighted([("sim", 4), ("tiny", 5), ("asan", 1)])
    okind = rng.choice(["cookie", "fd", "custom"])
    k1, k2 = rng.choice(["cookie", "fd", "custom"]), rng.choice(["cookie", "fd", "custom"])
    gc = rng.choice([{"mode": "none"}, {"mode": "none"}, {"mode": "bernoulli", "p1024": rng.choice([8, 64]), "seed": rng.below(1 << 30), "max_forced": 300}])
    case = {"prop": ID, "index": index, "seed": seed, "config": cfg,
            "meta": {"family": ("fault-" if fault else "roundtrip-") + ("graph" if graph else "tree") + "-" + cfg,
                     "complex_nan": "+nan.0)" in expr},
            "expr": expr, "cyclic": cyc, "writer": writer, "fault": fault, "gc": gc,
            "sink": {"kind": okind, "seed": rng.below(1 << 30)},
            "src1": {"kind": k1, "seed": rng.below(1 << 30)}, "src2": {"kind": k2, "seed": rng.below(1 << 30)},
            "sched": {"default_q": rng.choice([500, 50, 7]), "tick_budget": 40000000, "default_clock_step": 20}}
    if fault:
        case["corrupt"] = {"kind": rng.choice(["truncate", "flip", "drop", "insert", "dup"]), "pos": rng.below(1 << 20), "arg": rng.below(256)}
    return case


def corrupt(data, spec):
    if not data:
        return data
    pos = (spec["pos"] * len(data)) >> 20
    k = spec["kind"]
    b = bytearray(data)
    if k == "truncate":
        return bytes(b[:pos])
    if k == "flip":
        b[pos] ^= 1 << (spec["arg"] % 8)
        return bytes(b)
    if k == "drop":
        del b[pos]
        return bytes(b)
    if k == "insert":
        b.insert(pos, spec["arg"])
        return bytes(b)
    return bytes(b[:pos] + b[max(0, pos - 5):])


_texts = {}
_tlock = threading.Lock()


def writer_plan(case, chunks):
    w = case["writer"]
    return {"id": 0, "gc": case["gc"], "sched": case["sched"],
            "streams": {"o": st.stream(case["sink"]["kind"], "out", b"", chunks)},
            "steps": [{"op": "eval", "src": PRELUDE},
                      {"op": "eval", "src": "(define x %s) 'ok" % case["expr"]},
                      {"op": "eval", "src": "(write-string (to-text %s x)) 'ok" % w},
                      {"op": "eval", "src": "(let ((p (open-sim-output \"o\"))) (%s x p) (flush-output-port p) (close-output-port p) 'ok)" % w}]}


def reader_plan(case, text, c1, c2):
    w = case["writer"]
    return {"id": 1, "gc": case["gc"], "sched": case["sched"],
            "streams": {"i1": st.stream(case["src1"]["kind"], "in", text, c1), "i2": st.stream(case["src2"]["kind"], "in", text, c2)},
            "steps": [{"op": "eval", "src": PRELUDE},
                      {"op": "eval", "src": "(define x %s) 'ok" % case["expr"]},
                      {"op": "eval", "src": "(define p1 (open-sim-input \"i1\")) (define r1 (try-read native-read p1)) (car r1)"},
                      {"op": "eval", "src": "(define p2 (open-sim-input \"i2\")) (define r2 (try-read read p2)) (car r2)"},
                      {"op": "eval", "src": "(list (and (pair? (cdr r1)) (equal? x (cadr r1))) (and (pair? (cdr r2)) (equal? x (cadr r2))) "
                                             "(and (pair? (cdr r1)) (pair? (cdr r2)) (equal? (cadr r1) (cadr r2))))"},
                      {"op": "eval", "src": "(if (pair? (cdr r1)) (write-string (to-text %s (cadr r1)))) 'ok" % w},
                      {"op": "eval", "src": "(if (pair? (cdr r2)) (write-string (to-text %s (cadr r2)))) 'ok" % w},
                      {"op": "eval", "src": "(list (try-read native-read p1) (try-read read p2))"},
                      {"op": "eval", "src": "(if (%s) 'cyclic (list (and (pair? (cdr r1)) (first-diff x (cadr r1) 0)) (and (pair? (cdr r2)) (first-diff x (cadr r2) 0))))" % ("or #t" if case["cyclic"] else "or #f")},
                      {"op": "eval", "src": "(+ 1 2)"}]}


def diff_signature(flags, diff):
    """semantic signature of a round-trip failure: which kind of leaf differs, and for flonums whether the written text denotes
    the original double exactly (then the writer is right and the reader is not correctly rounded)."""
    from fractions import Fraction
    sig = {"readers_agree": flags.endswith("#t)"), "leaf": "unknown"}
    d = diff.replace("(#f ", "(").replace(" #f)", ")")
    i = d.find("(flonum ")
    for kind in ("flonum", "number", "char", "string", "symbol", "other"):
        if "(" + kind + " " in d:
            sig["leaf"] = kind
            break
    if i >= 0:
        toks = d[i + 1:].split(")")[0].split(" ")
        try:
            wx, exact = toks[1], toks[3]
            sig["writer_correct"] = Fraction(float(wx)) == Fraction(exact)
        except (ValueError, IndexError, ZeroDivisionError, OverflowError):
            sig["writer_correct"] = False
    return sig


def execute(case, run):
    from ..common import Rng
    oc = Outcome()
    oc.case = case
    cfg = case["config"]
    V = oc.verdicts
    # ---- writer run
    okind = case["sink"]["kind"]
    chunks = case.get("sink_chunks")
    if chunks is None:
        chunks = st.gen_chunks(Rng(case["sink"]["seed"]), okind, "out", 64)
        case = dict(case)
        case["sink_chunks"] = chunks
        oc.case = case
    wres = run(cfg, writer_plan(case, chunks))
    ip = infra_problem(wres)
    if ip:
        oc.infra = ip
        return oc
    oc.runs = 1
    V += crash_verdicts(wres, "writer run")
    oc.trace = wres.get("ev_hash", "") or wres.get("status", "")
    if wres.get("status") != "ok":
        return oc
    ws = wres["steps"]
    if ws[1]["exc"]:
        # the expression that builds the datum uses nothing but standard constructors: if it fails, either the tree or the generator
        # is wrong, and both must be looked at (for a long time this was counted as "nothing to judge", which hid a generator slip
        # -- an undefined cons* -- that voided a third of the cases)
        V.append(Verdict("constructor-error", "building the datum failed: %s; expression %s" % (ws[1]["res"][:200], case["expr"][:200]), {}))
        return oc
    if ws[2]["exc"]:
        V.append(Verdict("write-error", "writer %s raised on a string port: %s" % (case["writer"], ws[2]["res"][:200]), {"writer": case["writer"]}))
        return oc
    text = ws[2]["out"].encode("latin-1")
    sres = wres.get("streams", {}).get("o", {})
    sink = bytes.fromhex(sres.get("sink", ""))
    if ws[3]["exc"]:
        V.append(Verdict("write-error", "writer %s raised on the %s sink: %s" % (case["writer"], okind, ws[3]["res"][:200]), {"writer": case["writer"], "kind": okind}))
    elif sink != text:
        V.append(Verdict("sink-mismatch", "%s sink received %r..., string-port text is %r..." % (okind, sink[:60], text[:60]),
                         {"kind": okind, "shape": loss_shape(text, sink),
                          "backpressure": bool(sres.get("shorts", 0) or sres.get("blocks", 0))}))
    wcnt = wres.get("counters", {})
    # ---- reader run
    data = text
    if case["fault"]:
        data = corrupt(text, case["corrupt"])
    c1 = case.get("src1_chunks")
    c2 = case.get("src2_chunks")
    if c1 is None:
        c1 = st.gen_chunks(Rng(case["src1"]["seed"]), case["src1"]["kind"], "in", len(data) + 2)
        c2 = st.gen_chunks(Rng(case["src2"]["seed"]), case["src2"]["kind"], "in", len(data) + 2)
        case["src1_chunks"], case["src2_chunks"] = c1, c2
    rres = run(cfg, reader_plan(case, data, c1, c2))
    ip = infra_problem(rres)
    if ip:
        oc.infra = ip
        return oc
    oc.runs = 2
    V += crash_verdicts(rres, "reader run")
    oc.trace += ":" + (rres.get("ev_hash", "") or rres.get("status", ""))
    if rres.get("status") != "ok":
        return oc
    rs = rres["steps"]
    rcnt = rres.get("counters", {})
    fired = {"short_read": rcnt.get("stream_short_read", 0), "short_write": wcnt.get("stream_short_write", 0),
             "would_block": rcnt.get("stream_would_block", 0) + wcnt.get("stream_would_block", 0),
             "utf8_split_by_delivery": rcnt.get("probe:utf8_split_by_delivery", 0),
             "forced_collection": wres["stats"]["gc_forced"] + rres["stats"]["gc_forced"]}
    if not case["fault"]:
        if rs[2]["exc"] or rs[2]["res"] != "ok":
            V.append(Verdict("native-read-failed", "native read of the writer's own text failed (%s); text %r" % (rs[2]["res"][:120], text[:120]),
                             {"kind": case["src1"]["kind"], "complex_nan": bool(case["meta"].get("complex_nan"))}))
        if rs[3]["exc"] or rs[3]["res"] != "ok":
            V.append(Verdict("library-read-failed", "(scheme read) of the writer's own text failed (%s); text %r" % (rs[3]["res"][:120], text[:120]),
                             {"kind": case["src2"]["kind"], "complex_nan": bool(case["meta"].get("complex_nan"))}))
        if not V:
            if rs[4]["res"] != "(#t #t #t)":
                V.append(Verdict("roundtrip-not-equal", "(x=native x=library native=library) = %s; first differing leaves (native library) = %s; text %r"
                                 % (rs[4]["res"], rs[8]["res"][:300], text[:160]), diff_signature(rs[4]["res"], rs[8]["res"])))
            t1 = rs[5]["out"].encode("latin-1")
            t2 = rs[6]["out"].encode("latin-1")
            if t1 != text:
                V.append(Verdict("rewrite-differs", "re-writing what native read returned gives %r, original text %r" % (t1[:100], text[:100]), {"reader": "native"}))
            if t2 != text:
                V.append(Verdict("rewrite-differs", "re-writing what (scheme read) returned gives %r, original text %r" % (t2[:100], text[:100]), {"reader": "library"}))
            if rs[7]["res"] != "((ok #<eof>) (ok #<eof>))":
                V.append(Verdict("trailing-data", "a second read after the datum returned %s instead of eof" % rs[7]["res"][:120], {}))
        oc.nontrivial = len(text) >= 8 and (fired["short_read"] + fired["short_write"] + fired["would_block"]) >= 1
    else:
        fired["stored_text_corrupted"] = 1
        for i in (2, 3):
            if rs[i]["exc"] or rs[i]["res"] not in ("ok", "read-error"):
                V.append(Verdict("reader-escaped-error", "reader %d on corrupted text ended with %s" % (i - 1, rs[i]["res"][:160]), {}))
        oc.nontrivial = len(text) >= 8 and data != text
    if rs[-1]["exc"] or rs[-1]["res"] != "3":
        V.append(Verdict("context-unusable", "(+ 1 2) after the run gave %s" % rs[-1]["res"][:100], {}))
    oc.fired = fired
    oc.stats = {"sim_us": wres["stats"]["sim_us"] + rres["stats"]["sim_us"], "text_bytes": len(text), "ticks": wres["stats"]["ticks"] + rres["stats"]["ticks"]}
    return oc


def sample(case, oc):
    return {"config": case["config"], "writer": case["writer"], "fault": case.get("corrupt"), "expr": case["expr"][:500],
            "sink": case["sink"]["kind"], "sources": [case["src1"]["kind"], case["src2"]["kind"]],
            "sink_chunks": (case.get("sink_chunks") or [])[:20], "src1_chunks": (case.get("src1_chunks") or [])[:20], "trace": oc.trace}


def shrink(case):
    for key in ("sink_chunks", "src1_chunks", "src2_chunks"):
        ch = case.get(key)
        if ch:
            for cand in shrink_list(ch, 0):
                c = copy.deepcopy(case)
                c[key] = cand
                yield c
                if len(ch) > 40:
                    break
    if case["gc"].get("mode") != "none":
        c = copy.deepcopy(case)
        c["gc"] = {"mode": "none"}
        yield c
    if case["sched"].get("default_q") != 500:
        c = copy.deepcopy(case)
        c["sched"]["default_q"] = 500
        yield c


DESIGN_REF = "DESIGN.md section 5, C08"
LEVEL_TEXT = ("Seeded search over (datum, writer, reader, delivery/acceptance schedules over three port kinds, small-buffer variant, collections) with "
              "the no-fault oracle read(write(x)) equal? x for both readers + byte-identical sink for every schedule + idempotent re-write, and a "
              "separate fault batch (torn/flipped/short stored text) with the relaxed oracle value-or-error, terminates, memory safe. "
              "Exploration: values and schedules are sampled.")
LEVEL_NOTE = ("Which values are written is input sampling and not the claim; the claim is schedule-independence of the round trip. Descriptor sinks "
              "under back-pressure are known finding F9 (matched by semantic signature).")
