"""C12 -- strings are sequences of Unicode scalar values whatever the byte encoding (GC + stream part)."""
import copy

from .. import streams as st
from ..common import scm_str
from ..engine import loss_shape, Outcome, Verdict, crash_verdicts, infra_problem, shrink_list

ID = "C12"
RULE = ("case = history (<= 40 operations over <= 4 strings mixing 1/2/3/4-byte scalars: string-set! with every old-width x new-width at "
        "first/middle/last index, substring, string-append, string-copy(!) with aliasing, string-fill!, list/vector/UTF-8 conversions, "
        "comparison, writing a string to a simulated sink and reading text back with read-char / peek-char+read-char / read-string / "
        "read-line) x world (forced collection at every allocation inside the tape-marked mutating operation; chunk tapes and port kind "
        "{stdio cookie, non-blocking descriptor with would-block + later readiness, custom port} for every I/O operation; small port "
        "buffer variant). After every operation (string-length, code points, UTF-8 bytes) must equal a code-point-array model; sink "
        "bytes must equal the model's UTF-8; text read back must equal the text stored. Non-trivial: >= 1 width-changing string-set! or "
        ">= 1 I/O operation whose tape split a multi-byte character or blocked, and >= 1 forced collection or short transfer fired; "
        "distinct = event-log hash.")
ASSUMPTIONS = [
    "index <-> byte-offset arithmetic is a pure function of the history: it is only sampled here; what is decided is that contents survive "
    "collections inside store-replacing operations and every delivery schedule of character I/O",
    "EINTR is not injected (no property statement covers interrupted system calls)",
    "out-of-range indices are C01's business and are not generated here",
]
COMPONENTS = {"real": ["string primitives in sexp.c/eval.c/vm.c (string-set! re-encoding, substring, append, copy!)", "UTF-8 port decode/encode",
                       "buffered port refill/flush, peek push-back", "read-string/read-line in init-7/extras/(chibi io)", "collector", "scheduler blocking on descriptors"],
              "stub": ["byte delivery/acceptance schedule (cookie FILE*, interposed read/write/poll, custom-port callbacks)", "collection schedule", "clock"]}
BUDGET = {"quick": {"seconds": 50, "cases": 8000, "min_cases": 500}, "thorough": {"seconds": 900, "cases": 600000}}
IMPORTS = ["(srfi 18)", "(chibi io)", "(scheme char)", "(prefix (chibi string) cs:)", "(prefix (srfi 130) s130:)"]
CONFIGS = {
    "sim": {"variant": "sim", "imports": IMPORTS, "timeout_ms": 60000},
    "tiny": {"variant": "tiny", "imports": IMPORTS, "timeout_ms": 60000},
    "asan": {"variant": "asan", "imports": IMPORTS, "timeout_ms": 180000},
}
CHARS = {1: [0x61, 0x7a, 0x20, 0x30, 0x7e, 0x61, 0x0, 0x7f], 2: [0xe9, 0x3bb, 0x7ff, 0x80], 3: [0x4e2d, 0x20ac, 0x800, 0xffff, 0x3042], 4: [0x1f600, 0x10000, 0x10ffff]}
PRELUDE = st.SCHEME_PRELUDE + r"""
(define S (make-vector 4 ""))
(define (obs s) (list (string-length s) (map char->integer (string->list s))
                      (let ((b (string->utf8 s))) (let loop ((i (- (bytevector-length b) 1)) (acc '())) (if (< i 0) acc (loop (- i 1) (cons (bytevector-u8-ref b i) acc)))))))
"""


def rchar(rng, width=None):
    w = width or rng.weighted([(1, 4), (2, 2), (3, 2), (4, 2)])
    return rng.choice(CHARS[w])


def rtext(rng, n):
    return [rchar(rng) for _ in range(n)]


def lit(cps):
    return scm_str("".join(map(chr, cps)))


def chlit(cp):
    return "#\\x%x" % cp


def obs_expect(cps):
    b = "".join(map(chr, cps)).encode("utf-8")
    return "(%d (%s) (%s))" % (len(cps), " ".join(map(str, cps)), " ".join(map(str, b)))


def gen_history(rng):
    ops = []
    model = [[], [], [], []]
    streams = {}
    n = rng.range(6, 40)
    # start with some content
    for i in range(4):
        model[i] = rtext(rng, rng.range(0, 12))
        ops.append({"src": "(vector-set! S %d (string-copy %s)) 'ok" % (i, lit(model[i])), "k": "init", "t": i, "a": [list(model[i])]})
    for opi in range(n):
        op = rng.weighted([("set", 8), ("substring", 3), ("append", 3), ("copy!", 3), ("fill", 2), ("fromlist", 2), ("utf8", 2), ("copy", 2),
                           ("cmp", 2), ("affix", 3), ("map2", 3), ("case", 1), ("write-out", 4), ("read-in", 4), ("vector", 1)])
        i, j, k = rng.below(4), rng.below(4), rng.below(4)
        Si, Sj, Sk = "(vector-ref S %d)" % i, "(vector-ref S %d)" % j, "(vector-ref S %d)" % k
        if op == "set":
            if not model[k]:
                continue
            idx = rng.choice([0, len(model[k]) - 1, rng.below(len(model[k]))])
            c = rchar(rng)
            oldw = len(chr(model[k][idx]).encode("utf-8"))
            neww = len(chr(c).encode("utf-8"))
            model[k][idx] = c
            ops.append({"src": "(string-set! %s %d %s) 'ok" % (Sk, idx, chlit(c)), "k": "set", "t": k, "mut": True, "wchange": oldw != neww, "a": [idx, c]})
        elif op == "substring":
            a = rng.range(0, len(model[i]))
            b = rng.range(a, len(model[i]))
            model[k] = model[i][a:b]
            ops.append({"src": "(vector-set! S %d (substring %s %d %d)) 'ok" % (k, Si, a, b), "k": "substring", "t": k, "mut": True, "a": [i, a, b]})
        elif op == "append":
            if len(model[i]) + len(model[j]) > 400:
                continue
            extra = rtext(rng, rng.range(0, 3))
            model[k] = model[i] + extra + model[j]
            ops.append({"src": "(vector-set! S %d (string-append %s %s %s)) 'ok" % (k, Si, lit(extra), Sj), "k": "append", "t": k, "mut": True, "a": [i, extra, j]})
        elif op == "copy!":
            if not model[k]:
                continue
            at = rng.range(0, len(model[k]))
            room = len(model[k]) - at
            a = rng.range(0, len(model[i]))
            b = rng.range(a, min(len(model[i]), a + room))
            src = list(model[i][a:b])
            model[k][at:at + len(src)] = src
            ops.append({"src": "(string-copy! %s %d %s %d %d) 'ok" % (Sk, at, Si, a, b), "k": "copy!", "t": k, "mut": True, "alias": i == k, "a": [at, i, a, b]})
        elif op == "fill":
            if not model[k]:
                continue
            c = rchar(rng)
            a = rng.range(0, len(model[k]))
            b = rng.range(a, len(model[k]))
            model[k][a:b] = [c] * (b - a)
            ops.append({"src": "(string-fill! %s %s %d %d) 'ok" % (Sk, chlit(c), a, b), "k": "fill", "t": k, "mut": True, "a": [c, a, b]})
        elif op == "fromlist":
            model[k] = list(reversed(model[i]))
            ops.append({"src": "(vector-set! S %d (list->string (reverse (string->list %s)))) 'ok" % (k, Si), "k": "fromlist", "t": k, "mut": True, "a": [i]})
        elif op == "vector":
            a = rng.range(0, len(model[i]))
            model[k] = model[i][a:]
            ops.append({"src": "(vector-set! S %d (vector->string (string->vector %s %d))) 'ok" % (k, Si, a), "k": "vector", "t": k, "mut": True, "a": [i, a]})
        elif op == "utf8":
            a = rng.range(0, len(model[i]))
            model[k] = model[i][a:]
            ops.append({"src": "(vector-set! S %d (utf8->string (string->utf8 %s %d))) 'ok" % (k, Si, a), "k": "utf8", "t": k, "mut": True, "a": [i, a]})
        elif op == "copy":
            model[k] = list(model[i])
            ops.append({"src": "(vector-set! S %d (string-copy %s)) 'ok" % (k, Si), "k": "copy", "t": k, "mut": True, "a": [i]})
        elif op == "cmp":
            a, b = model[i], model[j]
            want = "(%s %s %s)" % ("#t" if a == b else "#f", "#t" if a < b else "#f", "#t" if a == list(model[i]) else "#f")
            ops.append({"src": "(list (string=? %s %s) (string<? %s %s) (equal? %s (string-copy %s)))" % (Si, Sj, Si, Sj, Si, Si), "k": "cmp", "a": [i, j]})
        elif op == "map2":
            # string-map / string-for-each over two or three strings of different lengths and character widths: the walk ends
            # with the string that has the fewest CHARACTERS
            three = rng.chance(1, 3)
            strs = [Si, Sj] + ([Sk] if three else [])
            idxs = [i, j] + ([k] if three else [])
            pick = rng.below(len(strs))
            params = "abc"[:len(strs)]
            t = rng.below(4)
            ops.append({"src": "(let ((n 0) (last #f)) (vector-set! S %d (string-map (lambda (%s) %s) %s)) (string-for-each (lambda (%s) (set! n (+ n 1)) (set! last %s)) %s) (list n (and last (char->integer last))))"
                               % (t, " ".join(params), params[pick], " ".join(strs), " ".join(params), params[pick], " ".join(strs)),
                        "k": "map2", "t": t, "mut": True, "a": [idxs, pick]})
        elif op == "affix":
            # prefix / suffix / search relations between two strings of the history (substring and append operations make related pairs),
            # through both libraries that implement them ((chibi string) and SRFI 130)
            ops.append({"src": "(list (cs:string-prefix? %s %s) (cs:string-suffix? %s %s) (s130:string-prefix? %s %s) (s130:string-suffix? %s %s) "
                               "(let ((c (s130:string-contains %s %s))) (and c (s130:string-cursor->index %s c))))" % (Si, Sj, Si, Sj, Si, Sj, Si, Sj, Sj, Si, Sj),
                        "k": "affix", "a": [i, j]})
        elif op == "case":
            # ASCII-only effect is portable; other characters are left to the implementation's tables (not asserted)
            if any(c > 0x7f for c in model[i]):
                continue
            model[k] = [ord(chr(c).upper()) for c in model[i]]
            ops.append({"src": "(vector-set! S %d (string-upcase %s)) 'ok" % (k, Si), "k": "case", "t": k, "mut": True, "a": [i]})
        elif op == "write-out":
            name = "o%d" % len(streams)
            kind = rng.choice(["cookie", "fd", "custom"])
            data = "".join(map(chr, model[i])).encode("utf-8")
            streams[name] = st.stream(kind, "out", b"", st.gen_chunks(rng, kind, "out", len(data) + 4))
            how = rng.choice(["write-string", "write-char", "display"])
            if how == "write-string":
                body = "(write-string %s p)" % Si
            elif how == "write-char":
                body = "(string-for-each (lambda (c) (write-char c p)) %s)" % Si
            else:
                body = "(display %s p)" % Si
            ops.append({"src": "(let ((p (open-sim-output \"%s\"))) %s (close-output-port p) 'ok)" % (name, body), "k": "write-out", "stream": name, "io": True, "a": [i]})
        elif op == "read-in":
            name = "i%d" % len(streams)
            kind = rng.choice(["cookie", "fd", "custom"])
            text = rtext(rng, rng.range(0, 60))
            method = rng.choice(["chars", "peek", "strings", "lines"])
            if method == "lines":
                # put some newlines inside, none at the end
                text = [0x0a if rng.chance(1, 8) else c for c in text]
                while text and text[-1] == 0x0a:
                    text.pop()
            data = "".join(map(chr, text)).encode("utf-8")
            streams[name] = st.stream(kind, "in", data, st.gen_chunks(rng, kind, "in", len(data) + 2))
            call = {"chars": "(slurp-chars p)", "peek": "(slurp-peek p)", "strings": "(slurp-strings p %d)" % rng.choice([1, 2, 5, 100]), "lines": "(slurp-lines p)"}[method]
            model[k] = list(text)
            ops.append({"src": "(vector-set! S %d (let* ((p (open-sim-input \"%s\")) (r %s)) (close-input-port p) r)) 'ok" % (k, name, call),
                        "k": "read-in", "t": k, "stream": name, "io": True, "method": method, "a": [list(text)]})
        else:
            continue
    return ops, streams



def replay_model(ops):
    """Re-runs the code-point-array model over the operations; yields (op, expectation dict). An operation whose
    preconditions no longer hold after shrinking (index out of range ...) makes the history invalid -> returns None."""
    m = [[], [], [], []]
    out = []
    for o in ops:
        k, a, t = o["k"], o.get("a"), o.get("t")
        exp = {}
        try:
            if k == "init":
                m[t] = list(a[0])
            elif k == "set":
                if not (0 <= a[0] < len(m[t])):
                    return None
                m[t][a[0]] = a[1]
            elif k == "substring":
                if not (0 <= a[1] <= a[2] <= len(m[a[0]])):
                    return None
                m[t] = m[a[0]][a[1]:a[2]]
            elif k == "append":
                m[t] = m[a[0]] + list(a[1]) + m[a[2]]
            elif k == "copy!":
                at, i, x, y = a
                if not (0 <= x <= y <= len(m[i]) and 0 <= at and at + (y - x) <= len(m[t])):
                    return None
                src = list(m[i][x:y])
                m[t][at:at + len(src)] = src
            elif k == "fill":
                c, x, y = a
                if not (0 <= x <= y <= len(m[t])):
                    return None
                m[t][x:y] = [c] * (y - x)
            elif k == "fromlist":
                m[t] = list(reversed(m[a[0]]))
            elif k in ("vector", "utf8"):
                if not (0 <= a[1] <= len(m[a[0]])):
                    return None
                m[t] = m[a[0]][a[1]:]
            elif k == "copy":
                m[t] = list(m[a[0]])
            elif k == "case":
                if any(c > 0x7f for c in m[a[0]]):
                    return None
                m[t] = [ord(chr(c).upper()) for c in m[a[0]]]
            elif k == "cmp":
                x, y = m[a[0]], m[a[1]]
                exp["want"] = "(%s %s #t)" % ("#t" if x == y else "#f", "#t" if x < y else "#f")
            elif k == "map2":
                idxs, pick = a
                n = min(len(m[x]) for x in idxs)
                res = list(m[idxs[pick]][:n])
                exp["want"] = "(%d %s)" % (n, str(res[-1]) if n else "#f")
                m[t] = res
            elif k == "affix":
                x, y = m[a[0]], m[a[1]]
                pre = "#t" if y[:len(x)] == x else "#f"
                suf = "#t" if (len(x) <= len(y) and y[len(y) - len(x):] == x) else "#f"
                pos = next((p for p in range(len(y) - len(x) + 1) if y[p:p + len(x)] == x), None)
                exp["want"] = "(%s %s %s %s %s)" % (pre, suf, pre, suf, "#f" if pos is None else str(pos))
            elif k == "write-out":
                exp["bytes"] = "".join(map(chr, m[a[0]])).encode("utf-8")
            elif k == "read-in":
                m[t] = list(a[0])
        except (IndexError, TypeError):
            return None
        if t is not None:
            exp["obs"] = obs_expect(m[t])
        out.append(exp)
    return out


def generate(rng, tier, index, seed):
    ops, streams = gen_history(rng.fork("hist"))
    cfg = rng.weighted([("sim", 4), ("tiny", 5), ("asan", 1)])
    world = rng.weighted([("gc-in-op", 4), ("bernoulli", 2), ("none", 2)])
    gc = {"mode": "none"}
    if world == "gc-in-op":
        muts = [i for i, o in enumerate(ops) if o.get("mut")]
        if muts:
            gc = {"mode": "every", "n": 1, "scope_step": 2 * rng.choice(muts) + 1, "max_forced": 3000}
    elif world == "bernoulli":
        gc = {"mode": "bernoulli", "p1024": rng.choice([16, 128, 512]), "seed": rng.below(1 << 30), "max_forced": 500}
    return {"prop": ID, "index": index, "seed": seed, "config": cfg, "meta": {"family": world + "-" + cfg}, "ops": ops, "streams": streams, "gc": gc,
            "sched": {"default_q": rng.choice([500, 50, 5]), "tick_budget": 30000000, "default_clock_step": 20}}


def plan_of(case):
    steps = [{"op": "eval", "src": PRELUDE}]
    for o in case["ops"]:
        steps.append({"op": "eval", "src": o["src"]})
        # observation step after every operation that has a target string
        t = o.get("t")
        steps.append({"op": "eval", "src": "(obs (vector-ref S %d))" % t if t is not None else "'-"})
    return {"id": 1, "steps": steps, "gc": case["gc"], "sched": case["sched"], "streams": case["streams"]}


def wellformed(b):
    try:
        b.decode("utf-8")
        return True
    except UnicodeDecodeError:
        return False


def execute(case, run):
    oc = Outcome()
    oc.case = case
    res = run(case["config"], plan_of(case))
    ip = infra_problem(res)
    if ip:
        oc.infra = ip
        return oc
    oc.result = res
    oc.trace = res.get("ev_hash", "") or res.get("status", "")
    oc.verdicts = crash_verdicts(res, "string history")
    V = oc.verdicts
    if res.get("status") == "ok":
        steps = res["steps"]
        if steps[0]["exc"]:
            V.append(Verdict("setup-error", steps[0]["res"][:300], {}))
            return oc
        checks = 0
        wchanges = 0
        exps = replay_model(case["ops"])
        if exps is None:
            # a shrunk history that is no longer well-formed: nothing to judge
            oc.verdicts = []
            oc.trace = "invalid-history"
            return oc
        for i, (o, exp) in enumerate(zip(case["ops"], exps)):
            s_op, s_obs = steps[1 + 2 * i], steps[2 + 2 * i]
            if s_op["exc"]:
                V.append(Verdict("op-error", "op %d %s raised %s" % (i, o["src"][:120], s_op["res"][:200]), {"op": o["k"]}))
                break
            if o["k"] in ("cmp", "affix", "map2"):
                checks += 1
                if s_op["res"] != exp["want"]:
                    V.append(Verdict("model-mismatch:" + o["k"], "op %d %s -> %s, model %s" % (i, o["src"][:160], s_op["res"], exp["want"]), {}))
                    break
            if exp.get("obs") is not None:
                checks += 1
                if s_obs["exc"] or s_obs["res"] != exp["obs"]:
                    V.append(Verdict("model-mismatch:" + o["k"], "op %d %s: observed %s, code-point model %s" % (i, o["src"][:140], s_obs["res"][:300], exp["obs"][:300]),
                                     {"op": o["k"], "io": bool(o.get("io"))}))
                    break
            if o["k"] == "write-out":
                checks += 1
                sink = bytes.fromhex(res.get("streams", {}).get(o["stream"], {}).get("sink", ""))
                want = exp["bytes"]
                if sink != want:
                    sres = res.get("streams", {}).get(o["stream"], {})
                    V.append(Verdict("sink-mismatch", "op %d: sink %s received %r, the model's UTF-8 is %r (well-formed: %s)"
                                     % (i, o["stream"], sink[:80], want[:80], wellformed(sink)),
                                     {"kind": case["streams"][o["stream"]]["kind"],
                                      "shape": loss_shape(want, sink),
                                      "backpressure": bool(sres.get("shorts", 0) or sres.get("blocks", 0))}))
                    break
            if o.get("wchange"):
                wchanges += 1
        stt = res["stats"]
        cnt = res.get("counters", {})
        oc.fired = {"forced_collection": stt["gc_forced"], "short_read": cnt.get("stream_short_read", 0), "short_write": cnt.get("stream_short_write", 0),
                    "would_block": cnt.get("stream_would_block", 0), "utf8_split_by_delivery": cnt.get("probe:utf8_split_by_delivery", 0)}
        oc.probes = {"width_changing_string_set": wchanges}
        oc.stats = {"sim_us": stt["sim_us"], "allocs": stt["allocs"], "model_checks": checks, "ticks": stt["ticks"]}
        io_hit = cnt.get("probe:utf8_split_by_delivery", 0) + cnt.get("stream_would_block", 0)
        oc.nontrivial = (wchanges >= 1 or io_hit >= 1) and (stt["gc_forced"] >= 1 or cnt.get("stream_short_read", 0) + cnt.get("stream_short_write", 0) >= 1)
    return oc


def sample(case, oc):
    return {"config": case["config"], "gc": case["gc"], "ops": [o["src"][:160] for o in case["ops"]][:30],
            "streams": {k: {"kind": v["kind"], "dir": v["dir"], "chunks": v["chunks"][:20]} for k, v in list(case["streams"].items())[:4]},
            "model_checks": oc.stats.get("model_checks"), "trace": oc.trace}


def shrink(case):
    ops = case["ops"]
    head = ops[:4]
    body = ops[4:]
    for cand in shrink_list(body, 1):
        c = copy.deepcopy(case)
        c["ops"] = head + cand
        if c["gc"].get("scope_step") is not None:
            c["gc"] = {"mode": "every", "n": 1, "max_forced": 3000}
        yield c
    if case["gc"].get("mode") != "none":
        c = copy.deepcopy(case)
        c["gc"] = {"mode": "none"}
        yield c
    for name, sdef in case["streams"].items():
        if sdef["chunks"]:
            for cand in shrink_list(sdef["chunks"], 0):
                c = copy.deepcopy(case)
                c["streams"][name]["chunks"] = cand
                yield c
                break


DESIGN_REF = "DESIGN.md section 5, C12"
LEVEL_TEXT = ("Seeded search over string histories x (collection points inside store-replacing operations, delivery/acceptance schedules over three "
              "port kinds incl. would-block in the middle of a character), judged by a code-point-array model after every operation. "
              "Exploration: the world decisions are what is searched; each executed operation is decided exactly by the model.")
LEVEL_NOTE = ("Trusts the Python code-point model and Python's UTF-8 codec. Non-ASCII case mapping is not asserted. The pure index/offset "
              "arithmetic is only sampled.")
