"""C15 -- hash tables behave as finite maps under any collection schedule, heap placement and callback preemption;
equal? keys built by different routes hash alike (sampled)."""
import copy

from ..engine import Outcome, Verdict, crash_verdicts, infra_problem, shrink_list

ID = "C15"
RULE = ("case = operation history (<= 500 ops: set!, update!, update!/default, ref, ref/default, exists?, delete!, size, copy, merge!, fold, walk-dump; values are numbers and sometimes #f / () / symbols; equal? probes on cyclic and beyond-budget structures that differ in one leaf) "
        "on two SRFI 69 tables of a drawn kind (equal?, eqv?, eq?, string=?+string-hash, user equivalence+hash written in Scheme), keys "
        "drawn so that several regrows and long chains occur and so that equal? keys are built by different computation routes "
        "(bignum arithmetic routes, string literal/append/widening and narrowing mutation/substring/string port/utf8 round trip, quoted vs constructed lists/vectors/bytevectors, flonums "
        "incl. -0.0) x world (heap placement: tape-chosen junk allocations before the run shift every address and with it identity-hash "
        "buckets; forced collections at every allocation inside tape-marked operations incl. regrow; a second green thread allocating "
        "while the main thread is preempted inside hash/equality callbacks with slice length 1). Each operation's result and every dump "
        "(as a set) is compared with an association-map model. Non-trivial: >= 1 regrow happened (size crossed the bucket count), >= 1 "
        "forced collection inside an operation or a non-zero placement shift, and >= 20 operations; distinct = event-log hash.")
ASSUMPTIONS = [
    "iteration results are compared as sets (bucket order is address- and history-dependent by design)",
    "the coherence of equal? with the default hash is only sampled on generated key pairs (a pure function of the two values)",
    "NaN keys are not used (eqv? on NaNs is unspecified in R7RS)",
]
COMPONENTS = {"real": ["lib/srfi/69/hash.c (cell lookup, regrow, delete)", "interface.scm", "equal?/eqv?/hash in sexp.c", "Scheme callbacks via nested sexp_apply", "collector"],
              "stub": ["collection schedule", "heap placement (junk prefix)", "slice lengths for the callback-preemption family"]}
BUDGET = {"quick": {"seconds": 50, "cases": 6000, "min_cases": 150}, "thorough": {"seconds": 900, "cases": 400000}}
IMPORTS = ["(srfi 69)", "(srfi 18)"]
CONFIGS = {
    "sim": {"variant": "sim", "imports": IMPORTS, "timeout_ms": 60000},
    "asan": {"variant": "asan", "imports": IMPORTS, "timeout_ms": 180000},
}
NOBJ = 12
PRELUDE = ("(define KV (vector " + " ".join("(list 'obj %d)" % i if i % 3 == 0 else ('(string-append "obj" "%d")' % i if i % 3 == 1 else "(vector 'obj %d)" % i) for i in range(NOBJ)) + "))\n"
           "(define T (vector #f #f))\n"
           "(define (dump t) (hash-table-walk t (lambda (k v) (write k) (write-char #\\=) (write v) (newline))) (hash-table-size t))\n"
           "(define stop #f) (define helper #f)\n")


def obj_repr(i):
    if i % 3 == 0:
        return "(obj %d)" % i
    if i % 3 == 1:
        return '"obj%d"' % i
    return "#(obj %d)" % i


# ---- keys: (expr, canonical model key per table kind, written repr)
def big_routes(rng, n):
    r = rng.below(5)
    if r == 0:
        return str(n)
    if r == 1:
        a = rng.range(1, 1 << 40)
        return "(+ %d %d)" % (n - a, a)
    if r == 2:
        return '(string->number "%d")' % n
    if r == 3:
        return "(quotient (* %d 3) 3)" % n
    return "(- (* %d 2) %d)" % (n, n)


def str_routes(rng, s):
    r = rng.below(10)
    esc = s
    if r == 0 or not s:
        return '(string-copy "%s")' % esc
    if r == 1:
        k = rng.range(0, len(s))
        return '(string-append "%s" "%s")' % (s[:k], s[k:])
    if r == 2:
        return "(list->string (list %s))" % " ".join("#\\x%x" % ord(c) for c in s)
    if r == 3:
        return '(let ((t (make-string %d #\\z))) %s t)' % (len(s), " ".join("(string-set! t %d #\\x%x)" % (i, ord(c)) for i, c in enumerate(s)))
    if r == 4:
        return '(substring "q%sq" 1 %d)' % (esc, len(s) + 1)
    if r == 6:
        # built in a buffer of wider characters: every string-set! narrows (or, for the widest, keeps) the encoding of its position
        filler = rng.choice([0x3bb, 0x20ac, 0x1F600])
        order = list(range(len(s)))
        if rng.chance(1, 2):
            order.reverse()
        return '(let ((t (make-string %d #\\x%x))) %s t)' % (len(s), filler, " ".join("(string-set! t %d #\\x%x)" % (i, ord(s[i])) for i in order))
    if r == 7:
        return '(let ((t (make-string %d #\\x%x))) (string-copy! t 0 "%s") t)' % (len(s), rng.choice([0x3bb, 0x20ac, 0x1F600]), esc)
    if r == 8:
        return '(let ((o (open-output-string))) (write-string "%s" o) (write-string "%s" o) (get-output-string o))' % (s[:len(s) // 2], s[len(s) // 2:])
    if r == 9:
        return '(utf8->string (string->utf8 "%s"))' % esc
    return '"%s"' % esc


def gen_datum(rng, depth):
    """structural datum: returns (constructed expr, quoted literal text, written repr)"""
    k = rng.below(6 if depth > 0 else 3)
    if k == 0:
        n = rng.choice([0, 1, -1, 7, 1 << 62, -(1 << 70), rng.below(1 << 80)])
        return big_routes(rng, n), str(n), str(n)
    if k == 1:
        s = rng.choice(["a", "ab", "key", "xλy", "long-string-key-0123456789"])
        return str_routes(rng, s), '"%s"' % s, '"%s"' % s
    if k == 2:
        s = rng.choice(["foo", "bar", "k1", "k2"])
        return "'%s" % s, s, s
    items = [gen_datum(rng, depth - 1) for _ in range(rng.range(0, 3))]
    if k == 3:
        return "(list %s)" % " ".join(i[0] for i in items), "(%s)" % " ".join(i[1] for i in items), "(%s)" % " ".join(i[2] for i in items)
    if k == 4:
        return "(vector %s)" % " ".join(i[0] for i in items), "#(%s)" % " ".join(i[1] for i in items), "#(%s)" % " ".join(i[2] for i in items)
    bs = [rng.below(256) for _ in range(rng.range(0, 4))]
    lit = "#u8(%s)" % " ".join(map(str, bs))
    # chibi writes bytevector elements as 0 or #xHH
    rep = "#u8(%s)" % " ".join("0" if b == 0 else "#x%02X" % b for b in bs)
    return "(bytevector %s)" % " ".join(map(str, bs)), lit, rep


FLOS = [("1.5", "(/ 3 2.)", "1.5"), ("-0.0", "(- 0.0)", "-0.0"), ("0.0", "(- 1.5 1.5)", "0.0"), ("100.25", "(+ 100 .25)", "100.25"), ("1e21", "(* 1e20 10)", "1e+21")]


def gen_key(rng, kind, pool):
    """returns (expr, canon, repr). pool = number of distinct abstract keys to draw from."""
    i = rng.below(pool)
    if kind == "string":
        s = "s%d" % (i * 7919 % 100003) if i % 5 else "xλ%d" % i
        return str_routes(rng, s), ("s", s), '"%s"' % s
    if kind == "custom":
        n = i * 13 + rng.choice([0, 13 * 1000, 13 * 77])   # several representatives per class
        n = i + 13 * rng.below(50)
        return str(n), ("m", n % 13), str(n)
    if kind in ("eq", "eqv"):
        c = i % 4
        if c == 0:
            return "(vector-ref KV %d)" % (i % NOBJ), ("o", i % NOBJ), obj_repr(i % NOBJ)
        if c == 1:
            return str(i * 31), ("n", i * 31), str(i * 31)
        if c == 2:
            return "'sym%d" % i, ("y", i), "sym%d" % i
        if kind == "eqv":
            if i % 8 == 3:
                f = FLOS[i % len(FLOS)]
                return rng.choice([f[0], f[1]]), ("f", f[0]), f[2]
            n = (1 << 64) + i
            return big_routes(rng, n), ("n", n), str(n)
        return "#\\x%x" % (0x61 + i % 26), ("c", i % 26), "#\\%s" % chr(0x61 + i % 26)
    # equal
    c = i % 6
    if c == 0:
        n = (1 << 63) * (i + 1) + i
        return big_routes(rng, n), ("n", n), str(n)
    if c == 1:
        s = "k%d" % i
        return str_routes(rng, s), ("s", s), '"%s"' % s
    if c == 2:
        f = FLOS[i % len(FLOS)]
        return rng.choice([f[0], f[1]]), ("f", f[0]), f[2]
    if c == 3:
        return "(vector-ref KV %d)" % (i % NOBJ), ("r", obj_repr(i % NOBJ)), obj_repr(i % NOBJ)
    # structural datum, deterministic in i so that it recurs, routes vary
    from ..common import Rng
    drng = Rng(1000 + i)
    cons, lit, rep = gen_datum(drng, 2)
    cons2 = gen_datum(Rng(1000 + i), 2)  # same abstract value ...
    expr = cons if rng.chance(1, 2) else "'" + lit
    return expr, ("d", rep), rep


def mk_table(kind):
    if kind == "equal":
        return "(make-hash-table equal?)"
    if kind == "eqv":
        return "(make-hash-table eqv?)"
    if kind == "eq":
        return "(make-hash-table eq?)"
    if kind == "string":
        return "(make-hash-table string=? string-hash)"
    return ("(make-hash-table (lambda (a b) (= (modulo a 13) (modulo b 13))) "
            "(lambda (k . o) (let ((h (modulo k 13))) (if (pair? o) (modulo (* h 7) (car o)) h))))")


def gen_history(rng, tier):
    kind = rng.weighted([("equal", 4), ("eqv", 2), ("eq", 3), ("string", 2), ("custom", 3)])
    nops = rng.choice([30, 80, 200, 500])
    pool = rng.choice([8, 40, 150, 400]) if kind != "custom" else 13
    ops = [{"src": "(vector-set! T 0 %s) (vector-set! T 1 %s) 'ok" % (mk_table(kind), mk_table(kind)), "k": "init"}]
    for _ in range(nops):
        t = rng.below(2)
        op = rng.weighted([("set", 8), ("ref", 4), ("refd", 3), ("exists", 3), ("delete", 4), ("update", 2), ("updated", 3), ("size", 2),
                           ("copy", 1), ("merge", 1), ("fold", 1), ("dump", 1), ("hashco", 1 if kind == "equal" else 0), ("equalbig", 1 if kind == "equal" else 0)])
        T = "(vector-ref T %d)" % t
        if op in ("set", "ref", "refd", "exists", "delete", "update", "updated", "hashco"):
            expr, canon, rep = gen_key(rng, kind, pool)
        if op == "set":
            # values are arbitrary objects: mostly numbers, sometimes #f / () / a symbol (a false value must stay an association)
            v = rng.range(0, 999) if not rng.chance(1, 6) else rng.choice(["#f", "#f", "()", "vsym", "#t"])
            vsrc = str(v) if isinstance(v, int) else ("'" + v if v in ("()", "vsym") else v)
            ops.append({"src": "(hash-table-set! %s %s %s) 'ok" % (T, expr, vsrc), "k": "set", "t": t, "canon": canon, "rep": rep, "v": v})
        elif op == "ref":
            ops.append({"src": "(hash-table-ref %s %s (lambda () 'missing))" % (T, expr), "k": "ref", "t": t, "canon": canon})
        elif op == "refd":
            ops.append({"src": "(hash-table-ref/default %s %s 'dflt)" % (T, expr), "k": "refd", "t": t, "canon": canon})
        elif op == "exists":
            ops.append({"src": "(hash-table-exists? %s %s)" % (T, expr), "k": "exists", "t": t, "canon": canon})
        elif op == "delete":
            ops.append({"src": "(hash-table-delete! %s %s) 'ok" % (T, expr), "k": "delete", "t": t, "canon": canon})
        elif op == "update":
            ops.append({"src": "(hash-table-update! %s %s (lambda (x) (if (number? x) (+ x 1) 1)) (lambda () 1000)) 'ok" % (T, expr), "k": "update", "t": t, "canon": canon, "rep": rep})
        elif op == "updated":
            ops.append({"src": "(hash-table-update!/default %s %s (lambda (x) (if (number? x) (+ x 2) 2)) 2000) 'ok" % (T, expr), "k": "updated", "t": t, "canon": canon, "rep": rep})
        elif op == "size":
            ops.append({"src": "(hash-table-size %s)" % T, "k": "size", "t": t})
        elif op == "copy":
            ops.append({"src": "(vector-set! T %d (hash-table-copy %s)) 'ok" % (1 - t, T), "k": "copy", "t": t})
        elif op == "merge":
            ops.append({"src": "(hash-table-merge! %s (vector-ref T %d)) 'ok" % (T, 1 - t), "k": "merge", "t": t})
        elif op == "fold":
            ops.append({"src": "(list (hash-table-fold %s (lambda (k v acc) (+ acc (if (number? v) v 0))) 0) (length (hash-table-keys %s)) (length (hash-table->alist %s)))" % (T, T, T), "k": "fold", "t": t})
        elif op == "dump":
            ops.append({"src": "(dump %s)" % T, "k": "dump", "t": t})
        elif op == "equalbig":
            # equal? on data the bounded fast comparison cannot decide (cyclic, or more than its object budget): two isomorphic
            # structures that differ in exactly one leaf -- position drawn over first / middle / last element -- or not at all
            vlen = rng.range(1, 3)
            pos = rng.below(vlen)
            same = rng.chance(1, 3)
            va = " ".join("'e%d" % j for j in range(vlen))
            vb = " ".join(("'e%d" % j) if (same or j != pos) else "'DIFF" for j in range(vlen))
            shape = rng.below(6)
            if shape >= 4:
                # nesting deeper than any recursion-depth allowance of the fast comparison, few nodes in total: the two structures
                # differ (or not) only in the innermost leaf; nested through the car / through a non-last vector slot
                dep = rng.choice([900, 1001, 1002, 1500, 3000, 9000])
                wrap = "(list x 'pad)" if shape == 4 else "(vector x 0)"
                leaf_a, leaf_b = "'leaf", ("'leaf" if same else rng.choice(["'other", "12345678901234567890123", "(list 'leaf)"]))
                src = ("(let ((mk (lambda (leaf) (let loop ((i 0) (x leaf)) (if (= i %d) x (loop (+ i 1) %s)))))) "
                       "(let ((a (mk %s)) (b (mk %s))) (list (equal? a b) (equal? b a))))" % (dep, wrap, leaf_a, leaf_b))
            elif shape == 0:
                src = ("(let ((c1 (list 1 2 3)) (c2 (list 1 2 3))) (set-cdr! (cddr c1) c1) (set-cdr! (cddr c2) c2) "
                       "(let ((a (list c1 (vector %s))) (b (list c2 (vector %s)))) (list (equal? a b) (equal? b a))))" % (va, vb))
            elif shape == 1:
                n = rng.choice([6000, 6000, 12000])
                at = rng.choice([0, 1, 17, n - 1])
                src = ("(let ((mk (lambda (z) (let loop ((i 0) (acc '())) (if (= i %d) acc (loop (+ i 1) (cons (if (= i %d) z (vector i i)) acc))))))) "
                       "(let ((a (mk (vector %s))) (b (mk (vector %s)))) (list (equal? a b) (equal? b a))))" % (n, at, va, vb))
            elif shape == 2:
                src = ("(let ((v1 (vector 'self %s)) (v2 (vector 'self %s))) (vector-set! v1 0 v1) (vector-set! v2 0 v2) (list (equal? v1 v2) (equal? v2 v1)))" % (va, vb))
            else:
                src = ("(let ((c1 (list 'x)) (c2 (list 'x))) (set-cdr! c1 c1) (set-cdr! c2 c2) "
                       "(let ((a (vector (vector %s) c1)) (b (vector (vector %s) c2))) (list (equal? a b) (equal? b a))))" % (va, vb))
            ops.append({"src": src, "k": "equalbig", "same": same})
        elif op == "hashco":
            e2, c2, r2 = gen_key(rng, kind, pool)
            ops.append({"src": "(let ((a %s) (b %s)) (list (equal? a b) (or (not (equal? a b)) (= (hash a) (hash b))) (eqv? (equal? a b) (equal? b a))))" % (expr, e2),
                        "k": "hashco", "same": canon == c2})
    ops.append({"src": "(dump (vector-ref T 0))", "k": "dump", "t": 0})
    ops.append({"src": "(dump (vector-ref T 1))", "k": "dump", "t": 1})
    return kind, ops


def generate(rng, tier, index, seed):
    kind, ops = gen_history(rng.fork("hist"), tier)
    world = rng.weighted([("gc-in-op", 4), ("placement", 3), ("bernoulli", 3), ("threads", 2 if kind in ("custom", "eqv", "string") else 0), ("plain", 1)])
    gc = {"mode": "none"}
    sched = {"default_q": 500, "tick_budget": 50000000}
    junk = 0
    threaded = False
    if world == "gc-in-op":
        # collect at every allocation inside one tape-marked operation (often an insertion that regrows)
        setops = [i for i, o in enumerate(ops) if o["k"] in ("set", "update", "updated", "copy", "merge")]
        target = rng.choice(setops) if setops else 0
        gc = {"mode": "every", "n": 1, "scope_step": target + 1, "max_forced": 2000}
        junk = rng.choice([0, 0, 17])
    elif world == "placement":
        junk = rng.range(1, 5000)
    elif world == "bernoulli":
        gc = {"mode": "bernoulli", "p1024": rng.choice([4, 32, 200]), "seed": rng.below(1 << 30), "max_forced": 400}
        junk = rng.choice([0, 33, 1001])
    elif world == "threads":
        threaded = True
        sched["default_q"] = rng.choice([1, 2, 5])
        sched["quantum"] = [rng.range(1, 9) for _ in range(rng.range(100, 2000))]
    cfg = "asan" if rng.chance(1, 10) else "sim"
    if cfg == "asan":
        # the asan variant's allocator is an order of magnitude slower: no 10^4-object structures there
        ops = [o for o in ops if not (o["k"] == "equalbig" and "(mk (lambda" in o["src"])]
    return {"prop": ID, "index": index, "seed": seed, "config": cfg,
            "meta": {"family": kind + "-" + world, "kind": kind}, "ops": ops, "gc": gc, "sched": sched, "junk": junk, "threaded": threaded}


def plan_of(case):
    pre = PRELUDE
    # heap placement: throw-away allocations of tape-chosen number/sizes shift every later address
    if case["junk"]:
        pre += "(define junk (let loop ((i 0) (acc '())) (if (= i %d) acc (loop (+ i 1) (cons (make-vector (modulo i 7) i) acc)))))\n(set! junk #f)\n" % case["junk"]
    steps = [{"op": "eval", "src": pre}]
    if case["threaded"]:
        steps[0]["src"] += ("(set! helper (thread-start! (make-thread (lambda () (let loop ((i 0) (acc '())) (if stop i "
                            "(loop (+ i 1) (if (> (length acc) 50) '() (cons (make-vector 3 i) acc)))))))))\n")
    for o in case["ops"]:
        steps.append({"op": "eval", "src": o["src"]})
    if case["threaded"]:
        steps.append({"op": "eval", "src": "(set! stop #t) (number? (thread-join! helper))"})
    return {"id": 1, "steps": steps, "gc": case["gc"], "sched": case["sched"]}


def judge(case, res):
    V = []
    steps = res["steps"][1:]
    tables = [dict(), dict()]   # canon -> [repr, value]
    regrows = 0
    checks = 0
    maxsize = 0
    for i, (o, s) in enumerate(zip(case["ops"], steps)):
        k = o["k"]
        if s["exc"]:
            ok_missing = False
            V.append(Verdict("op-error", "op %d %s raised %s" % (i, o["src"][:100], s["res"][:200]), {"op": k}))
            return V, checks, maxsize
        r = s["res"]
        if k == "init":
            continue
        t = o.get("t")
        tb = tables[t] if t is not None else None
        want = None
        if k == "set":
            if o["canon"] in tb:
                tb[o["canon"]][1] = o["v"]
            else:
                tb[o["canon"]] = [o["rep"], o["v"]]
        elif k == "ref":
            want = str(tb[o["canon"]][1]) if o["canon"] in tb else "missing"
        elif k == "refd":
            want = str(tb[o["canon"]][1]) if o["canon"] in tb else "dflt"
        elif k == "exists":
            want = "#t" if o["canon"] in tb else "#f"
        elif k == "delete":
            tb.pop(o["canon"], None)
        elif k == "update":
            if o["canon"] in tb:
                tb[o["canon"]][1] = tb[o["canon"]][1] + 1 if isinstance(tb[o["canon"]][1], int) else 1
            else:
                tb[o["canon"]] = [o["rep"], 1001]
        elif k == "updated":
            if o["canon"] in tb:
                tb[o["canon"]][1] = tb[o["canon"]][1] + 2 if isinstance(tb[o["canon"]][1], int) else 2
            else:
                tb[o["canon"]] = [o["rep"], 2002]
        elif k == "size":
            want = str(len(tb))
        elif k == "copy":
            tables[1 - t] = {c: list(v) for c, v in tb.items()}
        elif k == "merge":
            for c, v in tables[1 - t].items():
                if c not in tb:
                    tb[c] = list(v)
        elif k == "fold":
            want = "(%d %d %d)" % (sum(v[1] for v in tb.values() if isinstance(v[1], int)), len(tb), len(tb))
        elif k == "dump":
            want = str(len(tb))
            got_lines = sorted(l for l in s["out"].split("\n") if l)
            want_lines = sorted(("%s=%s" % (v[0], v[1])).encode("utf-8").decode("latin-1") for v in tb.values())
            checks += 1
            if got_lines != want_lines:
                gs, ws = set(got_lines), set(want_lines)
                V.append(Verdict("model-mismatch:dump", "op %d table %d: missing from table %r; unexpected in table %r; duplicates=%s"
                                 % (i, t, sorted(ws - gs)[:5], sorted(gs - ws)[:5], len(got_lines) != len(gs)), {"kind": case["meta"]["kind"]}))
                return V, checks, maxsize
        elif k == "equalbig":
            want = "(#t #t)" if o["same"] else "(#f #f)"
        elif k == "hashco":
            want = "(#t #t #t)" if o["same"] else None
            if not o["same"] and r not in ("(#f #t #t)",):
                V.append(Verdict("equal-incoherent", "op %d: keys with different abstract values: %s -> %s" % (i, o["src"][:160], r), {}))
        if want is not None:
            checks += 1
            if r != want:
                V.append(Verdict("model-mismatch:" + k, "op %d %s returned %s, association-map model says %s" % (i, o["src"][:120], r[:80], want),
                                 {"kind": case["meta"]["kind"], "op": k}))
                return V, checks, maxsize
        for tbx in tables:
            if len(tbx) > maxsize:
                maxsize = len(tbx)
    return V, checks, maxsize


def execute(case, run):
    oc = Outcome()
    oc.case = case
    res = run(case["config"], plan_of(case))
    ip = infra_problem(res)
    if ip:
        oc.infra = ip
        return oc
    oc.result = res
    oc.trace = res.get("ev_hash", "") or res.get("status", "")
    oc.verdicts = crash_verdicts(res, "table history")
    if res.get("status") == "ok":
        if res["steps"][0]["exc"]:
            oc.verdicts.append(Verdict("setup-error", res["steps"][0]["res"][:300], {}))
            return oc
        v, checks, maxsize = judge(case, res)
        oc.verdicts += v
        if case["threaded"] and not v and (res["steps"][-1]["exc"] or res["steps"][-1]["res"] != "#t"):
            oc.verdicts.append(Verdict("helper-thread-lost", "the allocating helper thread did not complete: %s" % res["steps"][-1]["res"][:200], {}))
        st = res["stats"]
        oc.fired = {"forced_collection": st["gc_forced"], "placement_shift": 1 if case["junk"] else 0, "context_switches": st["switches"],
                    "regrow": 1 if maxsize > 23 else 0}
        oc.stats = {"sim_us": st["sim_us"], "allocs": st["allocs"], "model_checks": checks, "ticks": st["ticks"]}
        oc.maxima = {"table_size": maxsize}
        oc.nontrivial = maxsize > 23 and len(case["ops"]) >= 20 and (st["gc_forced"] >= 1 or case["junk"] > 0 or st["switches"] > 10)
    return oc


def sample(case, oc):
    return {"family": case["meta"]["family"], "config": case["config"], "gc": case["gc"], "junk": case["junk"], "threaded": case["threaded"],
            "ops_head": [o["src"][:140] for o in case["ops"][:25]], "n_ops": len(case["ops"]), "model_checks": oc.stats.get("model_checks"),
            "max_table_size": oc.maxima.get("table_size"), "trace": oc.trace}


def shrink(case):
    ops = case["ops"]
    body = ops[1:]
    for cand in shrink_list(body, 1):
        c = copy.deepcopy(case)
        c["ops"] = [ops[0]] + cand
        if c["gc"].get("scope_step") is not None:
            c["gc"] = {"mode": "bernoulli", "p1024": 200, "seed": 1, "max_forced": 400}
        yield c
    if case["gc"].get("mode") != "none":
        c = copy.deepcopy(case)
        c["gc"] = {"mode": "none"}
        yield c
    if case["junk"]:
        c = copy.deepcopy(case)
        c["junk"] = 0
        yield c


DESIGN_REF = "DESIGN.md section 5, C15"
LEVEL_TEXT = ("Seeded search over table histories x (collection points inside operations incl. regrow, heap placement, callback preemption), "
              "each operation judged by an association-map model keyed by the table's equivalence; iteration compared as sets. "
              "Exploration: histories/worlds sampled; the map semantics of every operation executed is decided exactly.")
LEVEL_NOTE = ("Trusts the Python map model and the written representations used to compare dumps. equal?/hash coherence is sampled on generated "
              "pairs only. SRFI 125 wrappers are not driven separately (they delegate to the SRFI 69 cell primitive exercised here).")
