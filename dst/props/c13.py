"""C13 -- independent contexts are isolated and can be driven from different OS threads."""
import copy
import threading

from ..common import plan_hash
from ..engine import Outcome, Verdict, crash_verdicts, infra_problem, shrink_list

ID = "C13"
RULE = ("case = K tasks (2-8 quick, up to 16 thorough), each a REAL pthread that creates its own context (drawn heap size), loads the standard "
        "environment (half of the tasks the way the manual's embedding example does, lending the host's stdin/stdout/stderr through sexp_load_standard_ports with no_close=1), imports a drawn set of libraries incl. C-backed ones, runs a drawn deterministic workload (allocation-heavy, own forced "
        "collections, interns symbols, registers record types, defines globals with the same names but different values in every context), "
        "and destroys the context; tasks differ in workload and lifetime so creations/destructions overlap other tasks' execution. Exactly "
        "one thread holds a baton; at every switch point (allocation hook every n-th allocation, VM tick, around create / standard-env / "
        "each import / between steps / destroy) the tape names the next runnable task. Oracles: per-context heap walk after every "
        "collection (every reference must stay inside that context's own segments); static-segment monitor over the writable PT_LOAD "
        "ranges of libchibi-scheme.so and every chibi module (no word may hold an address inside a context heap; a word written by two "
        "different tasks with different values is shared mutable process state); ASan variant (freed heaps); each task's transcript "
        "equals the transcript of the same task run alone. Non-trivial: >= 2 tasks and >= 20 baton switches of which at least one at a "
        "non-allocation point; distinct = hash of the baton switch sequence.")
ASSUMPTIONS = [
    "a serialising simulator decides interleavings at switch-point granularity; word-tearing / memory-model races between instructions that "
    "really execute at the same time are outside it (TSan sees nothing when one thread runs at a time) -- what is decided instead is the "
    "stronger-but-coarser statement that no mutable process-wide state is shared at all and that contexts never reference each other's heaps",
    "static-segment monitor covers chibi's own shared objects only (libc / sanitizer statics are excluded by name)",
    "a static word written by several tasks with the same value (once-only initialisation flags) is allowed",
]
COMPONENTS = {"real": ["sexp_make_eval_context / sexp_load_standard_env / module loading with dlopen", "per-context heap, symbol and type tables", "collector", "sexp_destroy_context", "pthreads"],
              "stub": ["which OS thread runs (baton + tape)", "collection schedule per context", "clock"]}
BUDGET = {"quick": {"seconds": 75, "cases": 2000, "min_cases": 90}, "thorough": {"seconds": 1500, "cases": 100000}}
CONFIGS = {
    "sim": {"variant": "sim", "imports": [], "timeout_ms": 180000, "extra": ["--no-template"]},
    "asan": {"variant": "asan", "imports": [], "timeout_ms": 400000, "extra": ["--no-template"]},
}
LIBS = ["(srfi 69)", "(srfi 18)", "(srfi 95)", "(srfi 151)", "(srfi 27)", "(chibi io)", "(chibi json)", "(chibi weak)", "(chibi ast)", "(scheme time)",
        "(chibi filesystem)", "(scheme bytevector)", "(srfi 1)", "(scheme char)", "(srfi 39)", "(chibi string)"]


def gen_task(rng, k):
    """steps are drawn first, each brings the library it needs; a few unrelated libraries are imported on top"""
    need = set()
    steps = []
    steps.append("(define shared-name %d) (define (tag x) (list 'ctx %d x)) (define-record-type thing (make-thing a) thing? (a thing-a)) (tag shared-name)" % (k * 1000 + rng.below(999), k))
    n = rng.range(1, 5)
    for _ in range(n):
        c = rng.below(12)
        if c == 0:
            steps.append("(let loop ((i 0) (acc '())) (if (= i %d) (length acc) (loop (+ i 1) (cons (make-thing (* i shared-name)) acc))))" % rng.range(100, 4000))
        elif c == 1:
            steps.append("(let loop ((i 0) (s 0)) (if (= i %d) s (loop (+ i 1) (+ s (string-length (symbol->string (string->symbol (string-append \"sym-%d-\" (number->string i)))))))))" % (rng.range(50, 1500), k))
        elif c == 2:
            need.add("(srfi 69)")
            steps.append("(let ((t (make-hash-table equal?))) (do ((i 0 (+ i 1))) ((= i %d)) (hash-table-set! t (list i shared-name) i)) (hash-table-size t))" % rng.range(5, 800))
        elif c == 3:
            need.add("(srfi 95)")
            steps.append("(let ((l (let loop ((i 0) (acc '())) (if (= i %d) acc (loop (+ i 1) (cons (modulo (* i 7919 shared-name) 1009) acc)))))) (apply + (list-tail (sort l <) %d)))" % (rng.range(50, 600), 40))
        elif c == 4:
            need.add("(chibi json)")
            steps.append("(json->string (string->json \"{\\\"k\\\": [1, 2.5, \\\"%d\\\", null]}\"))" % k)
        elif c == 5:
            need.add("(srfi 18)")
            steps.append("(let ((ths (map (lambda (i) (thread-start! (make-thread (lambda () (* i shared-name))))) '(1 2 3)))) (map thread-join! ths))")
        elif c == 6:
            steps.append("(let loop ((i 0) (acc 1)) (if (= i %d) (modulo acc 1000003) (loop (+ i 1) (* acc (+ i shared-name)))))" % rng.range(20, 300))
        elif c == 7:
            # short sorts (fast paths of the C sorter), of numbers and of heap objects, with and without a Scheme comparator
            need.add("(srfi 95)")
            steps.append("(list (sort (list %s) <) (sort (vector %s) >) (sort (list %s) string<?) (sort (list %s) (lambda (a b) (< (car a) (car b)))))" % (
                " ".join(str((k * 7919 + i * 31) % 101) for i in range(rng.range(2, 30))), " ".join(str((k * 104729 + i * 17) % 97) for i in range(rng.range(2, 32))),
                " ".join('"s%d-%d"' % (k, (i * 7) % 13) for i in range(rng.range(2, 12))), " ".join("(list %d shared-name)" % ((i * 5 + k) % 11) for i in range(rng.range(2, 9)))))
        elif c == 8:
            need.add("(srfi 151)")
            steps.append("(list (bit-count (* shared-name 12345678901234567)) (arithmetic-shift shared-name 70) (bitwise-and (expt 3 80) (- (expt 2 90) shared-name)) (bitwise-xor shared-name -1))")
        elif c == 9:
            need.add("(srfi 27)")
            steps.append("(let ((s (make-random-source))) (random-source-pseudo-randomize! s %d 3) (let ((r (random-source-make-integers s))) (list (r 1000) (r 1000) (r 1000000007))))" % k)
        elif c == 10:
            need.add("(scheme char)")
            steps.append("(list (number->string (* 1.1 shared-name)) (string->number \"%d.25\") (number->string (expt shared-name 9) 16) (string->symbol (string-append \"z\" (number->string shared-name))) (exact (floor (sqrt (* 1.0 shared-name)))) (string-upcase \"ctx-%d-\u03bb\"))" % (k, k))
        else:
            need.add("(scheme bytevector)")
            steps.append("(let ((b (make-bytevector 16 %d))) (bytevector-u32-set! b 4 shared-name (endianness big)) (list (bytevector-u16-ref b 6 (endianness little)) (bytevector-ieee-double-ref b 8 (endianness big)) (utf8->string (string->utf8 \"k%d\"))))" % (k % 200, k))
    steps.append("(list shared-name (thing-a (make-thing 'done)) (tag 'end))")
    # import order is drawn, and some libraries are imported late -- by a step of the workload, after the context has registered
    # record types of its own -- so that contexts differ in what they had loaded when a library initialised itself
    libs = sorted(need) + [l for l in rng.sample(LIBS, rng.range(0, 3)) if l not in need]
    libs = rng.sample(libs, len(libs))
    late = [l for l in libs if l in need and rng.chance(1, 3)]
    if late:
        libs = [l for l in libs if l not in late]
        extra_types = " ".join("(define-record-type rt%d (make-rt%d x) rt%d? (x rt%d-x))" % (j, j, j, j) for j in range(rng.range(0, 3)))
        steps.insert(1, "%s (import %s) 'imported" % (extra_types, " ".join(late)))
    return {"heap": rng.choice([0, 0, 512 * 1024, 1024 * 1024, 8 * 1024 * 1024, 700001, 1000008]), "yield_every": rng.choice([1, 7, 50, 400, 5000]), "std_ports": rng.chance(1, 2),
            "gc_p1024": rng.choice([0, 1, 4]), "gc_seed": rng.below(1 << 30), "imports": libs, "steps": steps}


def generate(rng, tier, index, seed):
    kmax = 4 if tier == "quick" else 16
    k = rng.range(2, kmax)
    # tasks come from a pool of 40 per base seed so that solo baselines are shared between cases
    from ..common import Rng as _R
    pool_ids = [rng.below(40) for _ in range(k)]
    tasks = [gen_task(_R(0xC13 * 1000003 + pid), pid) for pid in pool_ids]
    tape_len = rng.choice([50, 400, 3000, 20000])
    tape = [rng.below(16) for _ in range(tape_len)]
    cfg = "asan" if rng.chance(1, 16) else "sim"
    if cfg == "asan":
        tasks = tasks[:2]
        tape = tape[:3000]
    return {"prop": ID, "index": index, "seed": seed, "config": cfg, "meta": {"family": "k%d-%s" % (len(tasks), cfg)},
            "tasks": tasks, "tape": tape, "quantum": rng.choice([50, 200, 1000])}


def plan_of(tasks, tape, quantum):
    return {"id": 1, "c13": {"tape": tape, "quantum": quantum, "tick_budget": 200000000, "tasks": tasks}}


_solo = {}
_lock = threading.Lock()


def split_tasks(res, ntasks):
    out = []
    cur = None
    for s in res.get("steps", []):
        if s["res"].startswith("task "):
            cur = {"hdr": s["res"], "err": s["exc"], "steps": []}
            out.append(cur)
        elif cur is not None:
            cur["steps"].append((s["out"], s["res"], s["exc"]))
    return out


def execute(case, run):
    oc = Outcome()
    oc.case = case
    cfg = case["config"]
    res = run(cfg, plan_of(case["tasks"], case["tape"], case["quantum"]))
    ip = infra_problem(res)
    if ip:
        oc.infra = ip
        return oc
    oc.result = res
    oc.trace = res.get("sw_hash", "") + ":" + (res.get("ev_hash", "") or res.get("status", ""))
    V = oc.verdicts
    V += crash_verdicts(res, "interleaved contexts")
    if res.get("status") != "ok":
        return oc
    got = split_tasks(res, len(case["tasks"]))
    for i, t in enumerate(case["tasks"]):
        if i >= len(got):
            V.append(Verdict("task-missing", "task %d produced no result" % i, {}))
            break
        if got[i]["err"]:
            V.append(Verdict("task-boot-error", got[i]["hdr"][:300], {}))
            continue
        # solo baseline: the same task alone in a fresh process
        solo_task = dict(t)
        key = cfg + plan_hash(solo_task)
        with _lock:
            base = _solo.get(key)
        if base is None:
            sres = run(cfg, plan_of([solo_task], [], case["quantum"]))
            oc.runs += 1
            if infra_problem(sres) or sres.get("status") != "ok":
                continue
            b = split_tasks(sres, 1)
            base = b[0]["steps"] if b and not b[0]["err"] else None
            with _lock:
                if len(_solo) < 4000:
                    _solo[key] = base
        if base is not None and got[i]["steps"] != base:
            for j, (a, b) in enumerate(zip(got[i]["steps"], base)):
                if a != b:
                    V.append(Verdict("diverged-from-solo", "task %d step %d: interleaved %r / %r, alone %r / %r" % (i, j, a[0][:120], a[1][:160], b[0][:120], b[1][:160]), {}))
                    break
            else:
                V.append(Verdict("diverged-from-solo", "task %d: %d steps interleaved, %d alone" % (i, len(got[i]["steps"]), len(base)), {}))
    st = res["stats"]
    cnt = res.get("counters", {})
    points = {k.split(":", 1)[1]: v for k, v in cnt.items() if k.startswith("switch_at:")}
    oc.fired = {"baton_switches": st["switches"], "heap_checks": st["heapchecks"], "static_words_written": cnt.get("static_words_written", 0)}
    for k2, v in points.items():
        oc.fired["switch_at_" + k2] = v
    oc.stats = {"sim_us": st["sim_us"], "ticks": st["ticks"], "tasks": len(case["tasks"])}
    oc.nontrivial = len(case["tasks"]) >= 2 and st["switches"] >= 20 and any(k2 != "alloc" for k2 in points)
    return oc


def sample(case, oc):
    return {"config": case["config"], "tasks": [{"imports": t["imports"], "heap": t["heap"], "yield_every": t["yield_every"], "steps": [s[:120] for s in t["steps"]]} for t in case["tasks"][:4]],
            "tape_head": case["tape"][:40], "tape_len": len(case["tape"]), "switches": oc.fired.get("baton_switches"), "trace": oc.trace}


def shrink(case):
    if len(case["tasks"]) > 2:
        for i in range(len(case["tasks"])):
            c = copy.deepcopy(case)
            del c["tasks"][i]
            yield c
    tape = case["tape"]
    if len(tape) > 8:
        yield dict(copy.deepcopy(case), tape=tape[: len(tape) // 2])
        yield dict(copy.deepcopy(case), tape=tape[: len(tape) // 4])
    for i, t in enumerate(case["tasks"]):
        if len(t["steps"]) > 2:
            for cand in shrink_list(t["steps"][1:-1], 0):
                c = copy.deepcopy(case)
                c["tasks"][i]["steps"] = [t["steps"][0]] + cand + [t["steps"][-1]]
                yield c
                break
        if t["imports"]:
            c = copy.deepcopy(case)
            c["tasks"][i]["imports"] = t["imports"][:-1]
            yield c


DESIGN_REF = "DESIGN.md section 5, C13"
LEVEL_TEXT = ("Seeded search over OS-thread interleavings of 2-16 real pthreads (parked on semaphores, released one at a time at intercepted "
              "switch points, the tape decides who runs), with per-context heap walks, a static-segment monitor for process-wide mutable state, "
              "ASan on freed heaps, and solo-run transcript equality. Exploration at switch-point granularity; true simultaneous-execution "
              "races are outside a serialising simulator and are not claimed.")
LEVEL_NOTE = ("Interleavings at switch-point granularity only; no TSan (it sees nothing under a serialising scheduler). The static monitor trusts "
              "dl_iterate_phdr's view of chibi's modules; same-value rewrites of a static word are allowed.")
