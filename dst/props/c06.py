"""C06 -- continuations, dynamic-wind, parameters and exceptions follow the R7RS model."""
import copy

from .. import windmodel as wm
from ..windmodel import S
from ..engine import Outcome, Verdict, crash_verdicts, infra_problem

ID = "C06"
RULE = ("case = control script (wind depth <= 4, <= 3 captured continuations each re-entered 0-2 times from inside or outside their extent, "
        "2-3 generator coroutines that yield from inside winds and are resumed in tape order, parameterize, with-exception-handler with "
        "returning and escaping handlers, guard with matching and with non-matching clauses (re-raise in the raise's dynamic environment), raise and raise-continuable at tape-chosen points) rendered to Scheme and interpreted by an "
        "executable wind model (CPS interpreter with explicit dynamic state) x world (collection points, slice lengths with the script "
        "running in one or two green threads, small-stack variant so re-entry must grow the stack). The chibi trace must equal the model's. "
        "Non-trivial: the model's trace shows at least one re-entry or escape across a wind (an 'in'/'out' marker repeated) or a handler "
        "invocation; distinct = hash of (script, world decisions that fired).")
ASSUMPTIONS = [
    "scripts stay inside what the wind model defines: before/after thunks transfer control (escape, raise, re-entry) only when "
    "dynamic-wind itself runs them on a normal entry/exit -- there they execute in the extent of the dynamic-wind call, as in every "
    "reference implementation, and no thunk of that wind may run a second time for the same entry/exit -- and never while a "
    "continuation transfer is running them; non-continuable raises are always escaped from, "
    "guard clauses have no side effects (chibi evaluates them before unwinding; with effect-free clauses that is unobservable)",
    "the tape decides which continuation/generator resumes next: the nondeterminism is introduced by the workload (cooperative tasks), "
    "GC/preemption/stack-size perturbations are layered on top",
    "the wind model (dst/windmodel.py) is the trusted reference",
]
COMPONENTS = {"real": ["%call/cc stack capture, RESUMECC/sexp_restore_stack", "dynamic-wind / travel-to-point! (init-7.scm)", "SRFI 39 parameterize",
                       "with-exception-handler / raise / guard", "per-thread wind lists", "collector"],
              "stub": ["which task resumes next (tape)", "collection schedule", "slice lengths", "stack size variant"]}
BUDGET = {"quick": {"seconds": 45, "cases": 20000, "min_cases": 300}, "thorough": {"seconds": 900, "cases": 2000000}}
CONFIGS = {
    "sim": {"variant": "sim", "imports": ["(srfi 18)"], "timeout_ms": 60000},
    "tiny": {"variant": "tiny", "imports": ["(srfi 18)"], "timeout_ms": 60000},
    "asan": {"variant": "asan", "imports": ["(srfi 18)"], "timeout_ms": 180000},
}


def q(sym):
    return [S("quote"), S(sym)]


class Gen:
    """script generator"""

    def __init__(self, rng):
        self.rng = rng
        self.nk = rng.range(1, 3)        # continuation slots
        self.ng = rng.range(0, 3)        # generators
        self.counter = 0
        self.budget = rng.range(8, 40)   # statements
        self.flags = []                  # per-wind flags for thunks that act on a normal entry / exit
        self.acting = rng.chance(1, 3)   # scripts whose before/after thunks transfer control when run by a normal entry/exit

    def fresh(self, prefix):
        self.counter += 1
        return "%s%d" % (prefix, self.counter)

    def value(self):
        r = self.rng
        return r.choice([r.range(0, 99), q(self.fresh("v")), [S("p1")], [S("p2")], [S("list"), q("l"), [S("p1")]]])

    def stmts(self, depth, hstack, in_gen, n=None):
        n = n if n is not None else self.rng.range(1, 4)
        out = []
        for _ in range(n):
            if self.budget <= 0:
                break
            out.append(self.stmt(depth, hstack, in_gen))
        if not out:
            out = [[S("note"), q(self.fresh("s"))]]
        return out

    def stmt(self, depth, hstack, in_gen):
        r = self.rng
        self.budget -= 1
        choices = [("note", 4), ("notep", 2)]
        if depth < 4:
            choices += [("wind", 4), ("param", 2), ("capture", 3), ("handler-ret", 2), ("handler-esc", 2), ("guard", 2), ("guard-pass", 2)]
        choices += [("invoke", 3)]
        # a guard none of whose clauses matches is transparent: the condition is re-raised (raise-continuable) in the dynamic
        # environment of the original raise, to the guard's outer handler
        eff = [h for h in hstack if h != "pass"]
        if eff:
            choices += [("raise-c", 3)]
            if eff[-1] in ("esc", "guard"):
                choices += [("raise", 2)]
        if in_gen is not None:
            choices += [("yield", 4)]
        if self.ng:
            choices += [("next", 4)]
        c = r.weighted(choices)
        if c == "note":
            return [S("note"), q(self.fresh("s"))]
        if c == "notep":
            return [S("note"), [S("list"), q("p"), [S("p1")], [S("p2")]]]
        if c == "wind" and self.acting and r.chance(1, 2):
            # thunks that transfer control -- only when dynamic-wind itself calls them on the normal way in (first call of the
            # before thunk) or out (the body has just finished normally), never while a continuation transfer is running them:
            # they then execute in the dynamic extent of the dynamic-wind call, so an escape/raise/re-entry from them must not
            # run any thunk of this wind again
            t = self.fresh("w")
            fb, fa = "fb-" + t, "fa-" + t
            self.flags += [fb, fa]
            before = [S("lambda"), [], [S("note"), [S("list"), q("in-" + t), [S("p1")]]]]
            after = [S("lambda"), [], [S("note"), [S("list"), q("out-" + t), [S("p2")]]]]
            if r.chance(1, 3):
                before.append([S("if"), [S("not"), S(fb)], [S("begin"), [S("set!"), S(fb), True], self.thunk_action(hstack)]])
            if r.chance(3, 4):
                after.append([S("if"), S(fa), [S("begin"), [S("set!"), S(fa), False], self.thunk_action(hstack)]])
            return [S("dynamic-wind"), before,
                    [S("lambda"), []] + self.stmts(depth + 1, hstack, in_gen) + [[S("set!"), S(fa), True]],
                    after]
        if c == "wind":
            t = self.fresh("w")
            return [S("dynamic-wind"), [S("lambda"), [], [S("note"), [S("list"), q("in-" + t), [S("p1")]]]],
                    [S("lambda"), []] + self.stmts(depth + 1, hstack, in_gen),
                    [S("lambda"), [], [S("note"), [S("list"), q("out-" + t), [S("p2")]]]]]
        if c == "param":
            p = r.choice(["p1", "p2"])
            return [S("parameterize"), [[S(p), r.range(100, 999)]]] + self.stmts(depth + 1, hstack, in_gen)
        if c == "capture":
            i = r.range(1, self.nk)
            t = self.fresh("cc")
            return [S("note"), [S("list"), q(t), [S("call/cc"), [S("lambda"), [S("c")], [S("set!"), S("k%d" % i), S("c")]] + self.stmts(depth + 1, hstack, in_gen, 1) + [q("first")]]]]
        if c == "invoke":
            i = r.range(1, self.nk)
            return [S("if"), [S("procedure?"), S("k%d" % i)],
                    [S("if"), [S("<"), S("n%d" % i), r.range(1, 2)],
                     [S("begin"), [S("set!"), S("n%d" % i), [S("+"), S("n%d" % i), 1]], [S("note"), q(self.fresh("jump"))], [S("k%d" % i), self.value()]]]]
        if c == "handler-ret":
            t = self.fresh("h")
            return [S("note"), [S("list"), q(t + "-res"),
                                [S("with-exception-handler"), [S("lambda"), [S("e")], [S("note"), [S("list"), q(t), S("e"), [S("p1")]]], self.value()],
                                 [S("lambda"), []] + self.stmts(depth + 1, hstack + ["ret"], in_gen)]]]
        if c == "handler-esc":
            t = self.fresh("x")
            return [S("note"), [S("list"), q(t + "-res"),
                                [S("call/cc"), [S("lambda"), [S("esc")],
                                                [S("with-exception-handler"), [S("lambda"), [S("e")], [S("note"), [S("list"), q(t), S("e"), [S("p2")]]], [S("esc"), [S("list"), q("escaped"), S("e")]]],
                                                 [S("lambda"), []] + self.stmts(depth + 1, hstack + ["esc"], in_gen)]]]]]
        if c == "guard":
            t = self.fresh("g")
            return [S("note"), [S("list"), q(t + "-res"),
                                [S("guard"), [S("e"), [True, [S("list"), q(t), S("e")]]]] + self.stmts(depth + 1, hstack + ["guard"], in_gen)]]
        if c == "guard-pass":
            t = self.fresh("gp")
            clauses = [[[S("eq?"), S("e"), q("never-" + t)], q("no")]]
            if r.chance(1, 3):
                clauses.append([[S("pair?"), [S("list")]], q("no2")])
            return [S("note"), [S("list"), q(t + "-res"),
                                [S("guard"), [S("e")] + clauses] + self.stmts(depth + 1, hstack + ["pass"], in_gen)]]
        if c == "raise-c":
            return [S("note"), [S("list"), q(self.fresh("rc")), [S("raise-continuable"), self.value()]]]
        if c == "raise":
            return [S("raise"), self.value()]
        if c == "yield":
            return [S("note"), [S("list"), q(self.fresh("resumed")), [S("yield%d" % in_gen), self.value()]]]
        if c == "next":
            g = r.range(1, self.ng)
            if in_gen == g:
                return [S("note"), q(self.fresh("s"))]
            return [S("note"), [S("list"), q(self.fresh("got")), [S("next%d" % g), self.value()]]]
        return [S("note"), q("x")]

    def thunk_action(self, hstack):
        r = self.rng
        choices = [("invoke", 4), ("note", 1)]
        eff = [h for h in hstack if h != "pass"]
        if eff:
            choices += [("raise-c", 2)]
            if eff[-1] in ("esc", "guard"):
                choices += [("raise", 4)]
        c = r.weighted(choices)
        if c == "invoke":
            i = r.range(1, self.nk)
            return [S("if"), [S("procedure?"), S("k%d" % i)],
                    [S("if"), [S("<"), S("n%d" % i), r.range(1, 2)],
                     [S("begin"), [S("set!"), S("n%d" % i), [S("+"), S("n%d" % i), 1]], [S("note"), q(self.fresh("tjump"))], [S("k%d" % i), self.value()]]]]
        if c == "raise-c":
            return [S("note"), [S("list"), q(self.fresh("trc")), [S("raise-continuable"), self.value()]]]
        if c == "raise":
            return [S("raise"), self.value()]
        return [S("note"), q(self.fresh("tn"))]

    def program(self):
        body = []
        body.append([S("define"), S("p1"), [S("make-parameter"), 1]])
        body.append([S("define"), S("p2"), [S("make-parameter"), 2]])
        for i in range(1, self.nk + 1):
            body.append([S("define"), S("k%d" % i), False])
            body.append([S("define"), S("n%d" % i), 0])
        for g in range(1, self.ng + 1):
            # coroutine: (nextG v) resumes generator G passing v, returns what it yields next, or 'done-G
            body.append([S("define"), S("ret%d" % g), False])
            body.append([S("define"), S("res%d" % g), False])
            body.append([S("define"), S("fin%d" % g), False])
            body.append([S("define"), [S("yield%d" % g), S("v")],
                         [S("call/cc"), [S("lambda"), [S("k")], [S("set!"), S("res%d" % g), S("k")], [S("ret%d" % g), S("v")]]]])
            gen_body = self.stmts(1, [], g, self.rng.range(2, 5))
            body.append([S("define"), [S("body%d" % g)]] + gen_body)
            body.append([S("define"), [S("next%d" % g), S("v")],
                         [S("if"), S("fin%d" % g), q("done-%d" % g),
                          [S("call/cc"), [S("lambda"), [S("r")],
                                          [S("set!"), S("ret%d" % g), S("r")],
                                          [S("if"), [S("procedure?"), S("res%d" % g)],
                                           [S("res%d" % g), S("v")],
                                           [S("begin"), [S("body%d" % g)], [S("set!"), S("fin%d" % g), True], [S("ret%d" % g), q("finished-%d" % g)]]]]]]])
        main = self.stmts(0, [], None, self.rng.range(3, 8))
        # an outermost escaping handler so that nothing is ever uncaught
        body.append([S("note"), [S("list"), q("main-res"),
                                 [S("call/cc"), [S("lambda"), [S("top")],
                                                 [S("with-exception-handler"), [S("lambda"), [S("e")], [S("top"), [S("list"), q("uncaught"), S("e")]]],
                                                  [S("lambda"), []] + main + [q("normal")]]]]]])
        body.append(q("end"))
        body = [[S("define"), S(f), False] for f in self.flags] + body
        return [S("let"), []] + body


SCHEME_PRELUDE = "(define trace '()) (define (note x) (set! trace (cons x trace)))"


def scheme_source(prog, threaded):
    text = wm.render(prog)
    if not threaded:
        return "(set! trace '())\n(let ((r %s)) (write (reverse trace)) (write r))" % text
    # per-thread trace: rebind note/trace inside the thread body
    return ("(let* ((mk (lambda () (let ((trace '())) (let ((note (lambda (x) (set! trace (cons x trace))))) (let ((r %s)) (cons (reverse trace) r))))))\n"
            "       (t1 (thread-start! (make-thread mk))) (t2 (thread-start! (make-thread mk))))\n"
            "  (let ((a (thread-join! t1)) (b (thread-join! t2))) (write (car a)) (write (cdr a)) (write (equal? a b))))" % text)


def generate(rng, tier, index, seed):
    g = Gen(rng.fork("script"))
    prog = g.program()
    trace, result, status = wm.run([prog], step_limit=400000)
    threaded = rng.chance(1, 4)
    cfg = rng.weighted([("sim", 5), ("tiny", 4), ("asan", 1)])
    gc = rng.choice([{"mode": "none"}, {"mode": "bernoulli", "p1024": rng.choice([8, 64, 256]), "seed": rng.below(1 << 30), "max_forced": 120},
                     {"mode": "every", "n": rng.choice([1, 3, 17]), "max_forced": 120}])
    sched = {"default_q": 500, "tick_budget": 20000000}
    if threaded:
        sched["quantum"] = [rng.range(1, 50) for _ in range(rng.range(20, 600))]
        sched["default_q"] = rng.choice([500, 5, 1])
    expect = "(" + " ".join(trace) + ")" + result
    if threaded:
        expect += "#t"
    return {"prop": ID, "index": index, "seed": seed, "config": cfg,
            "meta": {"family": ("threaded" if threaded else "single") + ("-acting" if g.flags else "") + "-" + cfg, "model_status": status, "trace_len": len(trace),
                     "script": wm.render(prog)},
            "steps": [{"op": "eval", "src": SCHEME_PRELUDE}, {"op": "eval", "src": scheme_source(prog, threaded)}],
            "expect": expect, "gc": gc, "sched": sched, "threaded": threaded}


def interesting(trace_text):
    # an in-/out- marker that occurs twice, a handler note or a jump
    import re
    marks = re.findall(r"\((in|out)-w\d+", trace_text)
    names = re.findall(r"\(((?:in|out)-w\d+)", trace_text)
    return len(names) != len(set(names)) or "jump" in trace_text or "(h" in trace_text or "(x" in trace_text or "resumed" in trace_text


def execute(case, run):
    oc = Outcome()
    oc.case = case
    if case["meta"]["model_status"] != "ok":
        # the generator only emits scripts the model finishes; anything else is a generator problem, not a verdict
        oc.infra = None
        oc.trace = "model-" + case["meta"]["model_status"]
        return oc
    res = run(case["config"], {"id": 1, "steps": case["steps"], "gc": case["gc"], "sched": case["sched"]})
    ip = infra_problem(res)
    if ip:
        oc.infra = ip
        return oc
    oc.result = res
    oc.trace = res.get("ev_hash", "") or res.get("status", "")
    oc.verdicts = crash_verdicts(res, "control script")
    if res.get("status") == "ok":
        s = res["steps"][1]
        got = s["out"]
        if s["exc"]:
            oc.verdicts.append(Verdict("script-error", "script raised to top level: %s | model trace %s" % (s["res"][:300], case["expect"][:300]), {}))
        elif got != case["expect"]:
            # first differing position for the report
            a, b = got, case["expect"]
            i = 0
            while i < min(len(a), len(b)) and a[i] == b[i]:
                i += 1
            oc.verdicts.append(Verdict("trace-mismatch", "at char %d: chibi ...%s | model ...%s" % (i, a[max(0, i - 60):i + 80], b[max(0, i - 60):i + 80]),
                                       {"threaded": case["threaded"]}))
        st = res["stats"]
        oc.fired = {"forced_collection": st["gc_forced"], "context_switches": st["switches"]}
        oc.stats = {"sim_us": st["sim_us"], "ticks": st["ticks"], "allocs": st["allocs"], "trace_events": case["meta"]["trace_len"]}
        oc.nontrivial = interesting(case["expect"])
    return oc


def sample(case, oc):
    return {"config": case["config"], "threaded": case["threaded"], "gc": case["gc"], "script": case["meta"]["script"][:1500],
            "model_trace": case["expect"][:600], "trace": oc.trace}


def shrink(case):
    if case["gc"].get("mode") != "none":
        c = copy.deepcopy(case)
        c["gc"] = {"mode": "none"}
        yield c
    if case["sched"].get("quantum"):
        c = copy.deepcopy(case)
        c["sched"]["quantum"] = []
        c["sched"]["default_q"] = 500
        yield c


DESIGN_REF = "DESIGN.md section 5, C06"
LEVEL_TEXT = ("Seeded search over control scripts x resume/raise tapes x world perturbations, judged against an executable wind model "
              "(independent CPS interpreter with explicit dynamic state). The systems under simulation are cooperative tasks (generators and "
              "re-entered continuations) whose scheduling decisions come from the seed; collections, preemption and a small stack are "
              "injected on top. Exploration: scripts are sampled, each one is decided exactly by the model.")
LEVEL_NOTE = ("Trusts dst/windmodel.py. Scripts avoid what R7RS leaves undefined. Guard clause side effects are excluded because chibi evaluates "
              "clauses before unwinding (documented deviation candidate, not asserted).")
