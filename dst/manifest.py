"""Generates /verif/MANIFEST.json from the property modules (python3 -m dst.manifest)."""
import importlib
import json
import os
import subprocess

from .common import REPO, VERIF

BUILT = ["C01", "C02", "C05", "C06", "C08", "C10", "C11", "C12", "C13", "C15", "C16", "C19"]

NA = {
    "C03": "pure function of the program text: deciding it needs an independent interpreter over generated programs (differential input testing); no schedule, clock, stream or fault in the property. Collections during compilation are exercised under C02.",
    "C04": "pure function of the operands (bigint oracle over an operand lattice = input testing); rooting inside bignum.c under collections is exercised by C02.",
    "C07": "pure function of the program text (renaming invariance is a metamorphic input test); nothing for a simulator to own.",
    "C09": "differential between build configurations over generated programs; the configuration axis is two compile-time switches, not a fault or schedule space. (Simplifier on/off is used as a swarm knob elsewhere, without claiming C09.)",
    "C14": "set algebra over import specifications and library graphs; the property does not quantify over schedules, clocks, streams or faults.",
    "C17": "pure function of the operands.",
    "C18": "pure functions / persistent structures in Scheme; the one C piece (qsort.c with Scheme callbacks) runs under forced collections in C02, which checks schedule-independence, not ADT conformance.",
    "C20": "pure function of (SRE, subject string).",
}

NOT_BUILT_YET = "claimed in DESIGN.md but the check is not built yet in this tree; not claimed until it is"

ALL = ["C%02d" % i for i in range(1, 21)]


def main():
    hooks_commits = subprocess.run(["git", "-C", REPO, "log", "--format=%H %s"], stdout=subprocess.PIPE).stdout.decode().splitlines()
    hook_shas = [l.split()[0] for l in hooks_commits if "verif hooks:" in l]
    checks = []
    for pid in BUILT:
        m = importlib.import_module("dst.props." + pid.lower())
        checks.append({
            "property_id": pid,
            "quick_cmd": "python3 verif.py check %s --tier quick" % pid,
            "thorough_cmd": "python3 verif.py check %s --tier thorough" % pid,
            "evidence_file": "/verif/evidence/%s.json" % pid,
            "replay_cmd_template": "python3 verif.py replay {path}",
            "engine": "chibisim",
            "level_claimed": {"category": "exploration", "text": m.LEVEL_TEXT, "design_ref": m.DESIGN_REF},
            "level_note": m.LEVEL_NOTE,
            "technique": "deterministic simulation with fault injection (seeded search over schedules/faults; replayable)",
        })
    na = []
    for pid in ALL:
        if pid in BUILT:
            continue
        na.append({"property_id": pid, "reason": NA.get(pid, NOT_BUILT_YET)})
    man = {
        "version": 1,
        "setup_cmd": "python3 verif.py setup",
        "hooks": {
            "guard": "SEXP_VERIF_SIM",
            "enable": "cmake -DCMAKE_C_FLAGS='-Wno-error -DSEXP_VERIF_SIM=1' (variants under /verif/build/<variant>, built by verif.py from /repo's working tree)",
            "baseline_off_cmd": "cmake -G Ninja -S /repo -B /repo/_build -DCMAKE_BUILD_TYPE=RelWithDebInfo -DCMAKE_C_FLAGS=-Wno-error && cmake --build /repo/_build && ctest --test-dir /repo/_build -j8 --timeout 900",
            "source_commits": hook_shas,
            "add_only": True,
        },
        "engines": [{
            "name": "chibisim",
            "path": "/verif/sim/chibisim.cpp",
            "serves_properties": BUILT,
            "kind_free_text": "deterministic simulator: real chibi context in a fork-per-run template process; simulator owns collection schedule, green-thread slice lengths, clock, stream delivery, descriptor limits; driver /verif/verif.py does seeded search, determinism gate, minimisation, replay",
        }],
        "checks": checks,
        "not_applicable": na,
        "notes": "See DESIGN.md. Known findings in /verif/known_findings.json. Exit 0 = held on everything explored, 1 = VIOLATION line(s), 2 = the check itself is broken (determinism gate / infrastructure).",
    }
    with open(os.path.join(VERIF, "MANIFEST.json"), "w") as f:
        json.dump(man, f, indent=1)
    print("wrote MANIFEST.json: %d checks, %d not applicable" % (len(checks), len(na)))


if __name__ == "__main__":
    main()
