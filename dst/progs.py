"""Seed-generated, allocation-heavy Scheme workloads. Each generator returns
(name, source, imports_needed). Programs print a digest of everything they build and
never print anything address-, time- or collection-dependent: table walks are
reduced with commutative folds or sorted before printing."""
from .common import scm_str

# ---- random data literals -------------------------------------------------

ATOMS = ["0", "1", "-1", "42", "1073741823", "4611686018427387904", "-4611686018427387905",
         "123456789012345678901234567890", "1/3", "-7/22", "1.5", "-0.0", "1e21", "3.141592653589793",
         "#t", "#f", "#\\a", "#\\x3bb", "#\\space", '"str"', '"\\x3bb;x"', '""', "sym", "|hello world|", "()"]


def datum(rng, depth):
    if depth <= 0 or rng.chance(3, 10):
        return rng.choice(ATOMS)
    k = rng.below(6)
    n = rng.range(0, 4)
    items = [datum(rng, depth - 1) for _ in range(n)]
    if k <= 2:
        return "(" + " ".join(items) + ")"
    if k == 3:
        return "#(" + " ".join(items) + ")"
    if k == 4:
        if len(items) >= 2:
            return "(" + " ".join(items[:-1]) + " . " + items[-1] + ")"
        return "(" + " ".join(items) + ")"
    return "#u8(" + " ".join(str(rng.below(256)) for _ in range(n)) + ")"


def bigint(rng, bits):
    v = 0
    for _ in range((bits + 31) // 32):
        v = (v << 32) | rng.below(1 << 32)
    v &= (1 << bits) - 1
    v |= 1 << (bits - 1)
    return -v if rng.chance(1, 3) else v


def ustring(rng, n):
    alphabet = ["a", "b", "Z", "0", " ", "λ", "é", "中", "\U0001F600", "€", "~"]
    return "".join(rng.choice(alphabet) for _ in range(n))


# ---- program families -----------------------------------------------------

def p_reader_writer(rng):
    ds = [datum(rng, rng.range(2, 5)) for _ in range(rng.range(3, 12))]
    body = "\n".join(
        "(let ((x (read (open-input-string %s)))) (write x) (newline) (write (equal? x (read (open-input-string (let ((o (open-output-string))) (write x o) (get-output-string o)))))) (newline))"
        % scm_str(d) for d in ds)
    return "reader-writer", body, []


def p_strings(rng):
    n = rng.range(5, 30)
    s0 = ustring(rng, rng.range(1, 20))
    ops = []
    for i in range(n):
        k = rng.below(9)
        if k == 0:
            ops.append("(set! s (string-append s %s))" % scm_str(ustring(rng, rng.range(0, 8))))
        elif k == 1:
            ops.append("(if (> (string-length s) 0) (set! s (substring s %d (string-length s))))" % rng.below(2))
        elif k == 2:
            ops.append("(if (> (string-length s) 0) (let ((t (string-copy s))) (string-set! t (modulo %d (string-length t)) %s) (set! s t)))"
                       % (rng.below(1000), "#\\x%x" % ord(rng.choice(["a", "λ", "中", "\U0001F600"]))))
        elif k == 3:
            ops.append("(set! acc (cons (string->list s) acc))")
        elif k == 4:
            ops.append("(set! acc (cons (string->utf8 s) acc))")
        elif k == 5:
            ops.append("(set! s (list->string (reverse (string->list s))))")
        elif k == 6:
            ops.append("(set! acc (cons (string->symbol s) acc))")
        elif k == 7:
            ops.append("(set! s (string-append (number->string (string-length s)) s))")
        else:
            ops.append("(set! acc (cons (string-upcase s) acc))")
    src = "(define s (string-copy %s)) (define acc '())\n%s\n(write s) (newline) (write acc) (newline)" % (scm_str(s0), "\n".join(ops))
    return "strings", src, ["(scheme char)"]


def p_bignum(rng):
    n = rng.range(4, 14)
    lines = []
    for _ in range(n):
        a = bigint(rng, rng.choice([62, 64, 65, 128, 200, 512, 1500]))
        b = bigint(rng, rng.choice([31, 62, 64, 100, 256, 700]))
        op = rng.choice(["+", "-", "*", "quotient", "remainder", "modulo", "gcd", "/", "expt", "sqrt", "str", "cmp", "inexact"])
        if op == "expt":
            lines.append("(write (expt %d %d))" % (a % 100003, rng.range(2, 60)))
        elif op == "sqrt":
            lines.append("(call-with-values (lambda () (exact-integer-sqrt %d)) (lambda (s r) (write (list s r))))" % abs(a))
        elif op == "str":
            r = rng.choice([2, 8, 10, 16, 36])
            lines.append("(write (string->number (number->string %d %d) %d))" % (a, r, r))
        elif op == "cmp":
            lines.append("(write (list (< %d %d) (= %d %d) (max %d %d)))" % (a, b, a, a, a, b))
        elif op == "inexact":
            lines.append("(write (exact (floor (/ (inexact %d) 3))))" % a)
        else:
            lines.append("(write (%s %d %d))" % (op, a, b if b != 0 else 7))
        lines.append("(newline)")
    lines.append("(let loop ((i 0) (acc 1)) (if (< i %d) (loop (+ i 1) (* acc (+ i %d))) (begin (write acc) (newline))))"
                 % (rng.range(20, 90), rng.range(1, 1 << 40)))
    return "bignum", "\n".join(lines), []


def p_hash(rng):
    n = rng.range(30, 400)
    kind = rng.choice(["equal", "string", "eqv-int", "custom"])
    if kind == "equal":
        mk = "(make-hash-table equal?)"
        key = "(list i (number->string i) (* i 1.5))"
    elif kind == "string":
        mk = "(make-hash-table string=? string-hash)"
        key = "(string-append \"k\" (number->string (* i 7919)))"
    elif kind == "eqv-int":
        mk = "(make-hash-table eqv?)"
        key = "(* i %d)" % rng.choice([1, 3, 1 << 20, (1 << 62) + 1])
    else:
        mk = "(make-hash-table (lambda (a b) (= (car a) (car b))) (lambda (k . o) (let ((h (* 31 (car k)))) (if (pair? o) (modulo h (car o)) h))))"
        key = "(list i i)"
    dels = rng.range(0, n)
    src = """
(define t %s)
(do ((i 0 (+ i 1))) ((= i %d)) (hash-table-set! t %s (vector i (number->string i))))
(do ((i 0 (+ i 3))) ((>= i %d)) (hash-table-delete! t %s))
(do ((i 1 (+ i 5))) ((>= i %d)) (hash-table-update!/default t %s (lambda (v) (vector (vector-ref v 0) "upd")) (vector -1 "new")))
(write (hash-table-size t)) (newline)
(write (hash-table-fold t (lambda (k v acc) (+ acc (vector-ref v 0) (string-length (vector-ref v 1)))) 0)) (newline)
(write (let loop ((i 0) (c 0)) (if (= i %d) c (loop (+ i 1) (if (hash-table-exists? t %s) (+ c 1) c))))) (newline)
(define t2 (hash-table-copy t))
(hash-table-walk t (lambda (k v) (hash-table-delete! t2 k)))
(write (hash-table-size t2)) (newline)
""" % (mk, n, key, dels, key, n, key, n, key)
    return "hash-" + kind, src, ["(srfi 69)"]


def p_sort(rng):
    n = rng.range(10, 300)
    mul = rng.choice([7919, 104729, 1299709])
    mod = rng.choice([17, 1000, 1 << 30, 1 << 70])
    cmp_ = rng.choice(["<", "(lambda (a b) (< a b))", "(lambda (a b) (let ((x (list a b))) (< (car x) (cadr x))))"])
    src = """
(define (gen n) (let loop ((i 0) (acc '())) (if (= i n) acc (loop (+ i 1) (cons (modulo (* (+ i 1) %d) %d) acc)))))
(define l (gen %d))
(define v (list->vector l))
(write (sort l %s)) (newline)
(write (sort v %s)) (newline)
(write (sort (map number->string l) string<?)) (newline)
(sort! v %s)
(write (vector-ref v 0)) (newline)
""" % (mul, mod, n, cmp_, cmp_, cmp_)
    return "sort", src, ["(srfi 95)"]


def p_bits(rng):
    lines = []
    for _ in range(rng.range(5, 20)):
        a = bigint(rng, rng.choice([30, 62, 64, 65, 128, 300]))
        b = bigint(rng, rng.choice([30, 62, 64, 65, 128, 300]))
        op = rng.choice(["bitwise-and", "bitwise-ior", "bitwise-xor", "shift", "not", "count", "len", "field"])
        if op == "shift":
            lines.append("(write (arithmetic-shift %d %d))" % (a, rng.range(-130, 130)))
        elif op == "not":
            lines.append("(write (bitwise-not %d))" % a)
        elif op == "count":
            lines.append("(write (bit-count %d))" % a)
        elif op == "len":
            lines.append("(write (integer-length %d))" % a)
        elif op == "field":
            s = rng.range(0, 70)
            lines.append("(write (bit-field %d %d %d))" % (a, s, s + rng.range(0, 80)))
        else:
            lines.append("(write (%s %d %d))" % (op, a, b))
        lines.append("(newline)")
    return "bits", "\n".join(lines), ["(srfi 151)"]


def json_value(rng, depth):
    if depth <= 0 or rng.chance(3, 10):
        return rng.choice(["1", "-2.5", "true", "false", "null", '"s"', '"\\u00e9\\n"', '"\\ud83d\\ude00"', "12345678901234567890", "[]", "{}"])
    if rng.chance(1, 2):
        return "[" + ",".join(json_value(rng, depth - 1) for _ in range(rng.range(0, 5))) + "]"
    # keys of every length up to several hundred characters: the writer holds a key across port-buffer flushes
    klen = rng.choice([0, 0, 0, 10, 60, 300])
    return "{" + ",".join('"k%d%s":%s' % (i, "x" * klen, json_value(rng, depth - 1)) for i in range(rng.range(0, 5))) + "}"


def p_json(rng):
    docs = [json_value(rng, rng.range(2, 6)) for _ in range(rng.range(2, 8))]
    if rng.chance(1, 2):
        # one document larger than the port buffer: an array of many small objects with longish keys
        docs.append("[" + ",".join('{"key-%d-%s":%d,"other%s":[%d,"v"]}' % (i, "y" * rng.choice([5, 40, 120]), i, "z" * rng.choice([1, 30]), i) for i in range(rng.choice([20, 80, 200]))) + "]")
    body = "\n".join(
        "(let* ((x (string->json %s)) (s (json->string x))) (write x) (newline) (write (equal? x (string->json s))) (newline))" % scm_str(d)
        for d in docs)
    return "json", body, ["(chibi json)"]


def p_ports(rng):
    n = rng.range(10, 200)
    s = ustring(rng, rng.range(1, 12))
    src = """
(define o (open-output-string))
(do ((i 0 (+ i 1))) ((= i %d)) (write-string %s o) (write i o) (write-char #\\x3bb o))
(define str (get-output-string o))
(write (string-length str)) (newline)
(define ip (open-input-string str))
(write (let loop ((c (read-char ip)) (n 0) (sum 0)) (if (eof-object? c) (list n sum) (loop (read-char ip) (+ n 1) (modulo (+ (* sum 31) (char->integer c)) 1000003))))) (newline)
(define bo (open-output-bytevector))
(do ((i 0 (+ i 1))) ((= i %d)) (write-u8 (modulo (* i 37) 256) bo) (write-bytevector (bytevector 1 2 3) bo))
(define bv (get-output-bytevector bo))
(write (bytevector-length bv)) (newline)
(define bi (open-input-bytevector bv))
(write (let loop ((b (read-u8 bi)) (sum 0)) (if (eof-object? b) sum (loop (read-u8 bi) (modulo (+ (* sum 3) b) 65521))))) (newline)
(write (utf8->string (string->utf8 str) 0 (min 10 (bytevector-length (string->utf8 str))))) (newline)
(define lp (open-input-string "l1\\nl2 %s\\n\\nlast"))
(write (let loop ((l (read-line lp)) (acc '())) (if (eof-object? l) (reverse acc) (loop (read-line lp) (cons l acc))))) (newline)
""" % (n, scm_str(s), n, s.replace("\\", "").replace('"', ""))
    return "ports", src, []


def p_control(rng):
    n = rng.range(5, 200)
    src = """
(define (sum . xs) (if (null? xs) 0 (+ (car xs) (apply sum (cdr xs)))))
(write (apply sum (let loop ((i 0) (acc '())) (if (= i %d) acc (loop (+ i 1) (cons i acc)))))) (newline)
(define k #f) (define count 0) (define trace '())
(dynamic-wind
  (lambda () (set! trace (cons 'in trace)))
  (lambda () (call/cc (lambda (c) (set! k c))) (set! count (+ count 1)) (set! trace (cons (make-vector 3 count) trace)))
  (lambda () (set! trace (cons 'out trace))))
(if (< count %d) (k 'again))
(write (length trace)) (newline)
(define (gen-list start end) (if (> start end) '() (cons start (gen-list (+ start 1) end))))
(write (call/cc (lambda (ret) (for-each (lambda (x) (if (> x %d) (ret (list 'found x (make-string 3 #\\z))))) (gen-list 0 %d)) 'none))) (newline)
(define-record-type point (make-point x y) point? (x px set-px!) (y py))
(define pts (map (lambda (i) (make-point i (number->string i))) (gen-list 0 %d)))
(for-each (lambda (p) (set-px! p (list (px p) (py p)))) pts)
(write (length (filter (lambda (p) (point? p)) pts))) (write (px (car (reverse pts)))) (newline)
(define (compose . fs) (if (null? fs) (lambda (x) x) (lambda (x) ((car fs) ((apply compose (cdr fs)) x)))))
(write ((apply compose (map (lambda (i) (lambda (x) (cons i x))) (gen-list 0 %d))) '())) (newline)
(write (call-with-values (lambda () (apply values (gen-list 0 %d))) list)) (newline)
(write (guard (e (#t (list 'caught (if (error-object? e) (error-object-message e) e)))) (vector-ref (make-vector 3 0) %d))) (newline)
(write (with-exception-handler (lambda (e) 42) (lambda () (+ 1 (raise-continuable (list 'oops (make-vector 2 'v))))))) (newline)
(write (let-values (((a b) (values (string-append "x" "y") (list 1 2)))) (list a b))) (newline)
(write (eval '(let loop ((i 0) (acc '())) (if (= i 20) acc (loop (+ i 1) (cons (* i i) acc)))) (interaction-environment))) (newline)
""" % (n, rng.range(2, 6), n // 2, n, min(n, 60), min(n, 40), min(n, 30), rng.range(3, 9))
    return "control", src, ["(srfi 1)"]


def p_deep(rng):
    """deep non-tail recursion through every kind of call (fixed, rest arguments, apply, map with a closure), on the main stack and
    on the small initial stack of a fresh green thread: the VM stack is re-allocated several times while frames hold the only
    references to fresh objects"""
    d = rng.choice([300, 700, 1500, 3000, 6000])
    # every frame checks, AFTER the recursive call has returned, the contents of what only its own stack slots kept alive (a frame whose
    # objects were reclaimed and re-used by a deeper frame's objects of the same shape has the right length but the wrong contents)
    shape = rng.choice([
        "(define (deep n . rest) (if (= n 0) (length rest) (let ((r (deep (- n 1) (list n) (vector n) (* 1.5 n)))) (+ r (length rest) "
        "(if (or (null? rest) (and (equal? (car rest) (list (+ n 1))) (equal? (cadr rest) (vector (+ n 1))) (= (car (cddr rest)) (* 1.5 (+ n 1))))) 0 1000000)))))",
        "(define (deep n . rest) (if (= n 0) 0 (let ((r (apply deep (- n 1) (list (number->string n) (list n))))) (+ 1 r "
        "(if (or (null? rest) (and (equal? (car rest) (number->string (+ n 1))) (equal? (cadr rest) (list (+ n 1))))) 0 1000000)))))",
        "(define (deep n) (if (= n 0) 0 (+ 1 (car (map (lambda (x) (let ((r (deep (- n 1)))) (if (= (vector-ref x 0) n) r (+ r 1000000)))) (list (vector n)))))))",
        "(define (deep n) (if (= n 0) '() (cons (number->string n) (deep (- n 1)))))",
        "(define (deep n . opt) (let ((v (vector n opt))) (if (= n 0) 0 (let ((r (deep (- n 1) v))) (+ r 1 "
        "(if (and (= (vector-ref v 0) n) (eq? (vector-ref v 1) opt) (or (null? opt) (= (vector-ref (car opt) 0) (+ n 1)))) 0 1000000))))))",
        # many direct arguments to a variadic procedure: the rest list is consed inside the call sequence itself, right after the stack check
        "(define (deep n . rest) (if (= n 0) 0 (let ((r (deep (- n 1) n (+ n 1) (list n) n (number->string n) n n (vector n) n n))) (+ r 1 "
        "(if (or (null? rest) (equal? rest (let ((m (+ n 1))) (list m (+ m 1) (list m) m (number->string m) m m (vector m) m m)))) 0 1000000)))))",
    ])
    call = "(deep %d)" % d
    fin = "(let ((r %s)) (write (if (pair? r) (list (length r) (apply + (map string-length r)) (car r) (list-ref r (quotient (length r) 2))) r)))" % (call if rng.chance(1, 2) else "(thread-join! (thread-start! (make-thread (lambda () %s))))" % call)
    src = shape + "\n" + fin + " (newline)\n(write (let ((r (deep 10))) (if (pair? r) r r))) (newline)\n"
    return "deep", src, ["(srfi 18)"]


def p_threads(rng):
    t = rng.range(2, 5)
    n = rng.range(20, 300)
    src = """
(define m (make-mutex))
(define total 0)
(define (work id) (lambda ()
  (let loop ((i 0) (acc '()))
    (if (< i %d)
        (begin (mutex-lock! m) (set! total (+ total 1)) (mutex-unlock! m)
               (loop (+ i 1) (cons (make-vector 4 i) (if (> (length acc) 20) '() acc))))
        (list id (length acc))))))
(define ths (map (lambda (id) (thread-start! (make-thread (work id)))) '(%s)))
(write (map thread-join! ths)) (newline)
(write total) (newline)
""" % (n, " ".join(str(i) for i in range(t)))
    return "threads", src, ["(srfi 18)"]


def p_vectors(rng):
    n = rng.range(10, 2000)
    src = """
(define v (make-vector %d '()))
(do ((i 0 (+ i 1))) ((= i %d)) (vector-set! v i (list i (make-string (modulo i 17) #\\a) (exact->inexact i))))
(write (vector-length (vector-map (lambda (x) (car x)) v))) (newline)
(write (apply + (map car (vector->list v)))) (newline)
(define big (make-vector %d 1.5))
(vector-fill! big (list 'a 'b))
(write (vector-ref big (- (vector-length big) 1))) (newline)
(define bv (make-bytevector %d 7))
(write (bytevector-u8-ref (bytevector-append bv (bytevector-copy bv 1)) %d)) (newline)
(write (string-length (apply string-append (map (lambda (x) (cadr x)) (vector->list v))))) (newline)
(write (length (let loop ((i 0) (acc '())) (if (= i %d) acc (loop (+ i 1) (cons (vector i (cons i i) (string #\\a)) acc)))))) (newline)
(write (list-tail (vector->list (vector-append v (vector 1 2 3))) %d)) (newline)
(write (exact (truncate (* 1000 (apply + (map (lambda (x) (caddr x)) (vector->list v))))))) (newline)
""" % (n, n, rng.choice([100, 5000, 70000]), rng.range(2, 9000), 1, n, n)
    return "vectors", src, []


def tower_operand(rng):
    t = rng.below(7)
    if t == 0:
        return str(rng.choice([0, 1, -1, 7, -12345, (1 << 61) - 1]))
    if t == 1:
        return str(bigint(rng, rng.choice([64, 100, 300])))
    if t == 2:
        return "%d/%d" % (rng.range(-50, 50), rng.choice([3, 7, 11, 64]))
    if t == 3:
        return "%d/%d" % (bigint(rng, 90), abs(bigint(rng, 80)) | 1)
    if t == 4:
        return rng.choice(["2.5", "-0.75", "1e10", "0.1", "-3.0"])
    if t == 5:
        return rng.choice(["1+2i", "-3-4i", "1.5-2.5i", "1/2+3/4i", "0.5+1/3i", "+i"])
    return "%d%+di" % (bigint(rng, 70), rng.range(1, 9))


def p_numbers(rng):
    lines = []
    for _ in range(rng.range(5, 25)):
        k = rng.below(6)
        if k == 0:
            lines.append("(write (string->number %s))" % scm_str(rng.choice(["1e400", "-1/3", "#xFFFFFFFFFFFFFFFFFFFF", "1.5e-320", "+inf.0", "1/0", "12345678901234567890.5", "#e1.25", "#i3/8"])))
        elif k == 1:
            lines.append("(write (number->string %s %d))" % (rng.choice(["255", "1/3", "-123456789012345678901234567890"]), rng.choice([2, 8, 10, 16])))
        elif k == 2:
            lines.append("(write (exact->inexact %d/%d))" % (bigint(rng, 80), abs(bigint(rng, 70))))
        elif k == 3:
            lines.append("(write (exact %s))" % rng.choice(["1e18", "2.5", "-1e30", "1e300"]))
        elif k == 4:
            lines.append("(write (* 1.0 (/ %d %d)))" % (bigint(rng, 100), abs(bigint(rng, 90))))
        else:
            lines.append("(write (map (lambda (x) (* x x x)) (list %d 1/7 2.5)))" % bigint(rng, 90))
        lines.append("(newline)")
    # the mixed-type dispatch of the generic operators: every pair of representations (fixnum, bignum, ratio with small / bignum parts, flonum,
    # complex with exact / inexact / ratio parts) converts one operand through freshly allocated temporaries
    for _ in range(rng.range(4, 16)):
        a, b = tower_operand(rng), tower_operand(rng)
        op = rng.choice(["+", "-", "*", "/", "-", "="])
        if op == "/":
            lines.append("(write (if (zero? %s) 'z (/ %s %s)))" % (b, a, b))
        else:
            lines.append("(write (%s %s %s))" % (op, a, b))
        lines.append("(newline)")
    return "numbers", "\n".join(lines), []


def p_tower(rng):
    """a handful of generic operations on mixed number representations and nothing else: few enough allocations that a schedule with a
    collection at every one of them covers the whole program (each conversion of an operand makes temporaries that only C locals hold)"""
    lines = []
    for _ in range(rng.range(3, 9)):
        a, b = tower_operand(rng), tower_operand(rng)
        op = rng.choice(["+", "-", "*", "/", "-", "=", "<", "expt", "exact->inexact", "number->string", "sqrt", "shift", "shift", "bitop", "quotient", "gcd"])
        if op in ("shift", "bitop", "quotient", "gcd"):
            # integer-only operations (SRFI 151 and division): fixnum operands whose result needs a bignum convert the fixnum first
            ia = rng.choice([str(rng.choice([1, -1, 3, 255, -12345, (1 << 61) - 1, -(1 << 61)])), str(bigint(rng, rng.choice([64, 100, 300])))])
            ib = rng.choice([str(rng.choice([1, -1, 7, 65536, (1 << 61) - 1])), str(bigint(rng, rng.choice([64, 100])))])
            if op == "shift":
                lines.append("(write (arithmetic-shift %s %d))" % (ia, rng.choice([1, 3, 30, 61, 62, 63, 64, 65, 100, 128, 200, -1, -30, -64, -100])))
            elif op == "bitop":
                lines.append("(write (%s %s %s))" % (rng.choice(["bitwise-and", "bitwise-ior", "bitwise-xor"]), ia, ib))
            elif op == "quotient":
                lines.append("(write (list (quotient %s %s) (remainder %s %s) (modulo %s %s)))" % (ia, ib, ia, ib, ia, ib))
            else:
                lines.append("(write (list (gcd %s %s) (lcm %s 12)))" % (ia, ib, ia))
        elif op == "/":
            lines.append("(write (if (zero? %s) 'z (/ %s %s)))" % (b, a, b))
        elif op == "<":
            lines.append("(write (if (and (real? %s) (real? %s)) (< %s %s) 'c))" % (a, b, a, b))
        elif op == "expt":
            lines.append("(write (expt %s %d))" % (a, rng.range(-3, 6)))
        elif op in ("exact->inexact", "sqrt"):
            lines.append("(write (%s %s))" % (op, a))
        elif op == "number->string":
            lines.append("(write (string->number (number->string %s)))" % a)
        else:
            lines.append("(write (%s %s %s))" % (op, a, b))
        lines.append("(newline)")
    return "tower", "\n".join(lines), ["(srfi 151)"]


def p_compile(rng):
    depth = rng.range(3, 30)
    e = "x"
    for i in range(depth):
        k = rng.below(5)
        if k == 0:
            e = "(let ((y%d (+ %s 1))) (if (> y%d 0) y%d (- y%d)))" % (i, e, i, i, i)
        elif k == 1:
            e = "((lambda (a . r) (+ a (length r))) %s 1 2)" % e
        elif k == 2:
            e = "(cond ((= %s 0) 0) ((> x 5) => (lambda (t) x)) (else (+ x %d)))" % (e, i)
        elif k == 3:
            e = "(let loop ((i 0) (acc %s)) (if (< i 3) (loop (+ i 1) (+ acc i)) acc))" % e
        else:
            e = "(car (list %s (quote (a #(1 2 \"s\") 1.5 %d))))" % (e, bigint(rng, 70))
    src = "(define (f x) %s)\n(write (map f '(0 1 2 10))) (newline)\n(define-syntax my-or (syntax-rules () ((_) #f) ((_ a) a) ((_ a b ...) (let ((t a)) (if t t (my-or b ...))))))\n(write (let ((t 5)) (my-or #f t))) (newline)" % e
    return "compile", src, []


FAMILIES = [
    (p_reader_writer, 3), (p_strings, 3), (p_bignum, 3), (p_hash, 3), (p_sort, 2), (p_bits, 2), (p_json, 2),
    (p_ports, 2), (p_control, 3), (p_deep, 6), (p_threads, 2), (p_vectors, 2), (p_numbers, 2), (p_tower, 3), (p_compile, 2),
]

ALL_IMPORTS = ["(scheme char)", "(srfi 1)", "(srfi 18)", "(srfi 69)", "(srfi 95)", "(srfi 151)", "(chibi json)"]


def gen_program(rng, only=None):
    fams = [(f, w) for f, w in FAMILIES if only is None or f.__name__ in only]
    f = rng.weighted(fams)
    return f(rng)
