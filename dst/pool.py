"""Worker pool: N chibisim template servers, plans fanned out, results keyed by index."""
import json
import os
import queue
import subprocess
import threading

from . import build

NWORKERS = int(os.environ.get("VERIF_WORKERS", "16"))


class Server:
    def __init__(self, variant, imports, timeout_ms=60000, extra=()):
        self.variant = variant
        self.imports = tuple(imports)
        self.timeout_ms = timeout_ms
        self.extra = tuple(extra)
        self.p = None

    def start(self):
        cmd = build.sim_cmd(self.variant, self.imports, ["--serve", "--timeout-ms", str(self.timeout_ms)] + list(self.extra))
        self.p = subprocess.Popen(cmd, stdin=subprocess.PIPE, stdout=subprocess.PIPE, stderr=subprocess.PIPE, cwd=os.path.join(build.VERIF))
        line = self.p.stdout.readline()
        if not line.startswith(b'{"ready"'):
            err = self.p.stderr.read().decode("utf-8", "replace")
            raise RuntimeError("chibisim server failed to start (%s): %s %s" % (self.variant, line, err[-2000:]))

    def run(self, plan):
        if self.p is None or self.p.poll() is not None:
            self.start()
        data = (json.dumps(plan, separators=(",", ":")) + "\n").encode()
        try:
            self.p.stdin.write(data)
            self.p.stdin.flush()
            line = self.p.stdout.readline()
        except (BrokenPipeError, OSError):
            line = b""
        if not line:
            self.close()
            return {"id": plan.get("id"), "status": "server-died"}
        try:
            return json.loads(line)
        except ValueError:
            return {"id": plan.get("id"), "status": "bad-result", "raw": line[:500].decode("latin-1")}

    def close(self):
        if self.p is not None:
            try:
                self.p.stdin.write(b"quit\n")
                self.p.stdin.flush()
            except Exception:
                pass
            try:
                self.p.wait(timeout=2)
            except Exception:
                self.p.kill()
            for f in (self.p.stdin, self.p.stdout, self.p.stderr):
                try:
                    f.close()
                except Exception:
                    pass
            self.p = None


class Pool:
    """Runs (config_key, plan) jobs on worker threads; each thread keeps one server per config."""

    def __init__(self, configs, nworkers=None):
        self.configs = configs  # name -> dict(variant, imports, timeout_ms)
        self.n = nworkers or NWORKERS
        self.workers = [dict() for _ in range(self.n)]

    def _server(self, widx, key):
        d = self.workers[widx]
        if key not in d:
            c = self.configs[key]
            d[key] = Server(c["variant"], c.get("imports", ()), c.get("timeout_ms", 60000), c.get("extra", ()))
        return d[key]

    def run_one(self, key, plan, widx=0):
        return self._server(widx, key).run(plan)

    def map(self, jobs, fn=None, on_result=None):
        """jobs: list of (key, plan). Returns results in order. fn(key, plan, run_one) may be given
        to run a composite job (e.g. baseline + perturbed) on one worker."""
        results = [None] * len(jobs)
        q = queue.Queue()
        for i, j in enumerate(jobs):
            q.put((i, j))
        stop = threading.Event()

        def work(widx):
            def run_one(key, plan):
                return self.run_one(key, plan, widx)
            while not stop.is_set():
                try:
                    i, j = q.get_nowait()
                except queue.Empty:
                    return
                try:
                    if fn is not None:
                        r = fn(j, run_one)
                    else:
                        r = run_one(j[0], j[1])
                except Exception as e:  # noqa
                    r = {"status": "driver-error", "error": repr(e)}
                results[i] = r
                if on_result is not None:
                    if on_result(i, j, r) is False:
                        stop.set()

        ths = [threading.Thread(target=work, args=(w,), daemon=True) for w in range(min(self.n, max(1, len(jobs))))]
        for t in ths:
            t.start()
        for t in ths:
            t.join()
        return results

    def close(self):
        for d in self.workers:
            for s in d.values():
                s.close()
            d.clear()
