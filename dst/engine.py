"""Generic check runner: seeded search, determinism gate, minimisation, known findings, evidence."""
import copy
import json
import os
import sys
import threading
import time

from . import build
from .common import EVIDENCE, REPLAYS, VERIF, Rng, canon, plan_hash, run_seed
from .pool import NWORKERS, Pool


class Verdict:
    def __init__(self, cls, detail, sig=None):
        self.cls = cls
        self.detail = detail
        self.sig = sig or {}

    def to_json(self):
        return {"class": self.cls, "detail": self.detail, "sig": self.sig}


class Outcome:
    """What executing one case produced."""

    def __init__(self):
        self.verdicts = []
        self.result = None        # primary chibisim result (dict)
        self.trace = ""           # hash identifying the execution (event log hash etc.)
        self.nontrivial = False
        self.fired = {}           # fault kind -> times it actually fired in this case
        self.probes = {}
        self.stats = {}
        self.runs = 1             # simulated runs executed for this case (baseline counted too)
        self.infra = None         # infrastructure problem (server died...) -> not a property verdict
        self.wall = 0.0
        self.maxima = {}          # name -> value; the evidence reports the maximum over all cases
        self.case = None          # the case with every relative choice resolved (what replay files store)


def infra_problem(res):
    st = res.get("status")
    if st in ("server-died", "bad-result", "driver-error", "bad-plan", "boot-failed"):
        return st
    return None


def crash_verdicts(res, what="run"):
    """Map abnormal child endings to verdicts (memory-safety oracle shared by all properties)."""
    st = res.get("status", "")
    out = []
    if st.startswith("crash:"):
        out.append(Verdict(st.replace(" ", "-"), "%s died: %s; stderr tail: %s" % (what, st, (res.get("stderr") or "")[-600:]), {"status": st}))
    elif st == "asan":
        err = res.get("stderr") or ""
        kind = "unknown"
        for line in err.splitlines():
            if "ERROR: AddressSanitizer:" in line:
                kind = line.split("AddressSanitizer:")[1].strip().split(" ")[0]
                break
        frames = [l.strip() for l in err.splitlines() if l.strip().startswith("#")][:6]
        out.append(Verdict("asan:" + kind, "%s: %s" % (what, " | ".join(frames)), {"asan": kind}))
    elif st == "timeout":
        out.append(Verdict("hang", "%s exceeded the real-time backstop" % what, {}))
    elif st.startswith("exit:"):
        out.append(Verdict("abort:" + st, "%s exited abnormally: %s; stderr tail: %s" % (what, st, (res.get("stderr") or "")[-400:]), {}))
    for v in res.get("violations", []) or []:
        out.append(Verdict(v["class"], v["detail"], {"monitor": v["class"]}))
    return out


class KnownFindings:
    def __init__(self, path=None):
        self.path = path or os.path.join(VERIF, "known_findings.json")
        self.entries = []
        if os.path.exists(self.path):
            with open(self.path) as f:
                self.entries = json.load(f).get("findings", [])

    def match(self, prop, verdict):
        for e in self.entries:
            if e.get("property") != prop or e.get("status") != "open":
                continue
            m = e.get("match", {})
            if "class" in m and m["class"] != verdict.cls:
                continue
            if "class_prefix" in m and not verdict.cls.startswith(m["class_prefix"]):
                continue
            sig = m.get("sig", {})
            if all(verdict.sig.get(k) == v for k, v in sig.items()):
                return e
        return None


class Check:
    """Drives one property check. `prop` is a property module object (see props/*)."""

    def __init__(self, prop, tier, seed, budget_s=None, max_cases=None, workers=None):
        self.prop = prop
        self.tier = tier
        self.seed = seed
        self.budget_s = budget_s if budget_s is not None else prop.BUDGET[tier]["seconds"]
        self.max_cases = max_cases if max_cases is not None else prop.BUDGET[tier]["cases"]
        # a floor on the number of cases: on a machine loaded by other work the time budget alone would explore less than the
        # check is known to need; the search then continues past the time budget (at most 4x)
        self.min_cases = 0 if (budget_s is not None or max_cases is not None) else prop.BUDGET[tier].get("min_cases", 0)
        self.workers = workers or NWORKERS
        self.pool = None
        self.kf = KnownFindings()
        self.t0 = time.time()

    # ---- execution helpers
    def open_pool(self):
        if self.pool is None:
            self.pool = Pool(self.prop.CONFIGS, self.workers)
        return self.pool

    def close(self):
        if self.pool:
            self.pool.close()
            self.pool = None

    def execute_cases(self, cases, stop_on_violation=False, deadline=None):
        pool = self.open_pool()
        outcomes = [None] * len(cases)

        def fn(case, run_one):
            t0 = time.time()
            oc = self.prop.execute(case, run_one)
            oc.wall = time.time() - t0
            return oc

        def on_result(i, case, oc):
            outcomes[i] = oc
            if deadline and time.time() > deadline:
                return False
            return True

        res = pool.map(cases, fn=fn, on_result=on_result)
        return res

    def execute_single(self, case, fresh=False):
        """Run one case on a dedicated server (fresh=True: brand-new template process)."""
        pool = Pool(self.prop.CONFIGS, 1) if fresh else self.open_pool()
        try:
            oc = self.prop.execute(case, lambda k, p: pool.run_one(k, p, 0))
        finally:
            if fresh:
                pool.close()
        return oc

    # ---- gate + minimise
    def gate(self, case, oc):
        """Same case three more times (twice on a warm server, once in a fresh process):
        class and trace hash must agree, else the simulator is broken (exit 2)."""
        want = (sorted(v.cls for v in oc.verdicts), oc.trace)
        for fresh in (False, False, True):
            o2 = self.execute_single(case, fresh=fresh)
            got = (sorted(v.cls for v in o2.verdicts), o2.trace)
            if got != want:
                return False, "expected %r got %r (fresh=%s)" % (want, got, fresh)
        return True, ""

    def minimise(self, case, cls, budget_runs=400, budget_s=90):
        """Greedy shrinking while the same violation class persists."""
        t0 = time.time()
        runs = 0
        best = case
        improved = True
        while improved and runs < budget_runs and time.time() - t0 < budget_s:
            improved = False
            for cand in self.prop.shrink(best):
                if runs >= budget_runs or time.time() - t0 > budget_s:
                    break
                runs += 1
                oc = self.execute_single(cand)
                if oc.infra:
                    continue
                if any(v.cls == cls for v in oc.verdicts):
                    best = cand
                    improved = True
                    break
        return best, runs

    def build_failed(self, e):
        return _build_failure_report(self.prop, e, self.tier, self.seed)

    # ---- main loop
    def run(self):
        prop = self.prop
        variants = sorted(set(c["variant"] for c in prop.CONFIGS.values()))
        try:
            build.build_all(variants)
        except build.BuildError as e:
            return self.build_failed(e)
        t_start = time.time()
        deadline = t_start + self.budget_s
        batch = max(self.workers * 4, 32)
        index = 0
        n_eval = 0
        n_runs = 0
        distinct = set()
        fired = {}
        probes = {}
        samples = []
        families = {}
        famwall = {}
        infra = {}
        stats_sum = {}
        maxima = {}
        violating = []   # (case, outcome)
        known_raw = {}
        n_unlisted = 0
        if hasattr(prop, "prepare"):
            prop.prepare(self)
        hard_deadline = t_start + 4 * self.budget_s
        while index < self.max_cases and (time.time() < deadline or (index < self.min_cases and time.time() < hard_deadline)):
            cases = []
            for _ in range(min(batch, self.max_cases - index)):
                rs = run_seed(self.seed, prop.ID, index)
                cases.append(prop.generate(Rng(rs), self.tier, index, rs))
                index += 1
            outcomes = self.execute_cases(cases, deadline=(deadline if index > self.min_cases else hard_deadline))
            for case, oc in zip(cases, outcomes):
                if oc is None:
                    continue
                if isinstance(oc, dict):  # driver-error from the pool
                    infra["driver-error"] = infra.get("driver-error", 0) + 1
                    sys.stderr.write("driver error: %r\n" % (oc,))
                    continue
                n_eval += 1
                n_runs += oc.runs
                if oc.infra:
                    infra[oc.infra] = infra.get(oc.infra, 0) + 1
                    continue
                fam = case.get("meta", {}).get("family", "default")
                families[fam] = families.get(fam, 0) + 1
                famwall[fam] = famwall.get(fam, 0.0) + oc.wall
                for k, v in oc.fired.items():
                    fired[k] = fired.get(k, 0) + v
                for k, v in oc.probes.items():
                    probes[k] = probes.get(k, 0) + v
                for k, v in oc.stats.items():
                    if isinstance(v, (int, float)):
                        stats_sum[k] = stats_sum.get(k, 0) + v
                for k, v in oc.maxima.items():
                    if v > maxima.get(k, float('-inf')):
                        maxima[k] = v
                if oc.nontrivial:
                    distinct.add(oc.trace)
                if len(samples) < 3 and oc.nontrivial:
                    samples.append(prop.sample(case, oc))
                if oc.verdicts:
                    kf0 = self.kf.match(prop.ID, oc.verdicts[0])
                    if kf0 is not None:
                        # a listed finding: keep searching, confirm (gate + minimise) only the first two per finding
                        known_raw[kf0["id"]] = known_raw.get(kf0["id"], 0) + 1
                        if known_raw[kf0["id"]] <= 2:
                            violating.append((oc.case or case, oc))
                    else:
                        violating.append((oc.case or case, oc))
                        n_unlisted += 1
            if n_unlisted >= 8:
                break
        wall_search = time.time() - t_start
        # ---- violations: gate, minimise, classify
        exit_code = 0
        reported = []
        known_hit = {}
        broken = None
        seen_sigs = set()
        for case, oc in violating[:16]:
            v0 = oc.verdicts[0]
            key = (v0.cls, canon(v0.sig))
            if key in seen_sigs:
                continue
            seen_sigs.add(key)
            ok, why = self.gate(case, oc)
            if not ok:
                broken = "determinism gate failed for %s case %s: %s" % (prop.ID, case.get("index"), why)
                break
            kf = self.kf.match(prop.ID, v0)
            slow_cls = v0.cls in ("hang", "budget")   # every re-run of such a case is slow: shrink only a little
            small, mruns = self.minimise(case, v0.cls, budget_runs=12 if slow_cls else (120 if kf else 400), budget_s=30 if kf else (60 if slow_cls else 120))
            oc2 = self.execute_single(small)
            vv = [v for v in oc2.verdicts if v.cls == v0.cls]
            if not vv:
                small, oc2, vv = case, oc, [v0]
            v = vv[0]
            kf = self.kf.match(prop.ID, v)
            if kf:
                known_hit[kf["id"]] = known_hit.get(kf["id"], 0) + 1
                continue
            os.makedirs(REPLAYS, exist_ok=True)
            path = os.path.join(REPLAYS, "%s-%d-%d.json" % (prop.ID, self.seed, case.get("index", 0)))
            with open(path, "w") as f:
                json.dump({"property": prop.ID, "seed": self.seed, "index": case.get("index"),
                           "violation": v.to_json(), "trace": oc2.trace, "minimise_runs": mruns,
                           "case": small, "original_case_hash": plan_hash(case)}, f, indent=1)
            reported.append((v, path))
        self.close()
        wall = time.time() - self.t0
        # ---- evidence
        os.makedirs(EVIDENCE, exist_ok=True)
        cov = {
            "evaluations": n_eval,
            "distinct_nontrivial": len(distinct),
            "rule": prop.RULE,
            "samples": samples,
            "simulated_runs": n_runs,
            "runs_per_hour": int(n_runs / max(wall_search, 1e-6) * 3600),
            "seeds_per_hour": int(n_eval / max(wall_search, 1e-6) * 3600),
            "sim_time_s": round(stats_sum.get("sim_us", 0) / 1e6, 3),
            "faults_fired": fired,
            "probes": probes,
            "families": families,
            "totals": {k: v for k, v in stats_sum.items() if k != "sim_us"},
            "maxima": maxima,
            "variants": variants,
            "components": prop.COMPONENTS,
            "known_findings_hit": known_hit,
            "known_findings_raw_hits": known_raw,
            "infrastructure_problems": infra,
            "workers": self.workers,
        }
        ev = {"property_id": prop.ID, "tier": self.tier, "seed": self.seed, "level": "exploration",
              "coverage": cov, "assumptions": prop.ASSUMPTIONS, "wall_s": round(wall, 2),
              "violations": len(reported)}
        with open(os.path.join(EVIDENCE, prop.ID + ".json"), "w") as f:
            json.dump(ev, f, indent=1)
        # ---- report
        for fid, n in sorted(known_hit.items()):
            e = [x for x in self.kf.entries if x["id"] == fid][0]
            print("KNOWN-FINDING: property=%s %s (%s; hit by %d minimised case(s))" % (prop.ID, e["what"], fid, n))
        if broken:
            print("CHECK-BROKEN property=%s %s" % (prop.ID, broken))
            return 2
        for v, path in reported:
            print("VIOLATION property=%s replay=%s" % (prop.ID, path))
            print("  class=%s detail=%s" % (v.cls, v.detail[:500]))
            exit_code = 1
        if sum(infra.values()) > max(3, n_eval // 20):
            print("CHECK-BROKEN property=%s infrastructure problems: %r" % (prop.ID, infra))
            return 2
        if os.environ.get("VERIF_DEBUG"):
            for fam in sorted(famwall, key=lambda f: -famwall[f]):
                print("  family %-28s n=%4d wall=%.1fs avg=%.2fs" % (fam, families[fam], famwall[fam], famwall[fam] / families[fam]))
        print("%s %s: %d cases (%d simulated runs, %d distinct non-trivial traces) in %.1fs; faults fired: %s; violations: %d; known findings hit: %s"
              % (prop.ID, self.tier, n_eval, n_runs, len(distinct), wall, json.dumps(fired, sort_keys=True), len(reported), sorted(known_hit)))
        return exit_code


def _build_failure_report(prop, e, tier, seed):
    """A variant of the tree under test could not be built. When the failing step is the variant's own interpreter running one
    of the project's programs (the build generates the stub modules with it), the tree misbehaves under that configuration:
    reported as a violation with the failing command as the replay. A compile/link error means the tree cannot be examined."""
    variant = getattr(e, "variant", "?")
    tail = e.output[-3000:]
    if not e.interpreter_failed():
        sys.stderr.write(tail)
        print("CHECK-BROKEN property=%s the tree does not build in the %s configuration: %s" % (prop.ID, variant, str(e)))
        return 2
    os.makedirs(REPLAYS, exist_ok=True)
    path = os.path.join(REPLAYS, "%s-%d-build-%s.json" % (prop.ID, seed, variant))
    lines = [l for l in tail.splitlines() if l.strip()]
    fail_i = max([i for i, l in enumerate(lines) if l.startswith("FAILED:")] or [0])
    detail = " | ".join(lines[fail_i:fail_i + 4])[:700]
    with open(path, "w") as f:
        json.dump({"property": prop.ID, "seed": seed, "violation": {"class": "build:interpreter-failed-in-" + variant, "detail": detail, "sig": {}},
                   "build": {"variant": variant, "cmd": e.cmd}, "trace": "build"}, f, indent=1)
    os.makedirs(EVIDENCE, exist_ok=True)
    with open(os.path.join(EVIDENCE, prop.ID + ".json"), "w") as f:
        json.dump({"property_id": prop.ID, "tier": tier, "seed": seed, "level": "exploration",
                   "coverage": {"evaluations": 1, "distinct_nontrivial": 0, "rule": prop.RULE,
                                "samples": [{"what": "build of the %s configuration" % variant, "failing_step": detail}],
                                "note": "the %s configuration of the tree could not be built: its interpreter failed while running the project's own build programs; no simulated case was run" % variant},
                   "assumptions": prop.ASSUMPTIONS, "wall_s": 0, "violations": 1}, f, indent=1)
    print("VIOLATION property=%s replay=%s" % (prop.ID, path))
    print("  class=build:interpreter-failed-in-%s detail=%s" % (variant, detail))
    return 1


def replay(prop, path):
    with open(path) as f:
        head = json.load(f)
    if "build" in head:
        variants = sorted(set(c["variant"] for c in prop.CONFIGS.values()))
        try:
            build.build_all(variants)
        except build.BuildError as e:
            if e.interpreter_failed() and getattr(e, "variant", None) == head["build"]["variant"]:
                print("VIOLATION property=%s replay=%s" % (prop.ID, path))
                print("  reproduced exactly: class=%s (the %s configuration fails to build the same way)" % (head["violation"]["class"], e.variant))
                return 1
            print("  build fails differently now: %s" % e)
            return 2
        print("not reproduced: the %s configuration builds now" % head["build"]["variant"])
        return 0
    with open(path) as f:
        rp = json.load(f)
    variants = sorted(set(c["variant"] for c in prop.CONFIGS.values()))
    build.build_all(variants)
    chk = Check(prop, "quick", rp.get("seed", 0))
    try:
        oc = chk.execute_single(rp["case"], fresh=True)
    finally:
        chk.close()
    want = rp["violation"]["class"]
    got = [v for v in oc.verdicts if v.cls == want]
    if got and oc.trace == rp.get("trace"):
        print("VIOLATION property=%s replay=%s" % (prop.ID, path))
        print("  reproduced exactly: class=%s trace=%s detail=%s" % (want, oc.trace, got[0].detail[:500]))
        return 1
    if got:
        print("VIOLATION property=%s replay=%s" % (prop.ID, path))
        print("  reproduced class=%s but trace differs (%s vs recorded %s): the tree or the simulator changed" % (want, oc.trace, rp.get("trace")))
        return 1
    print("not reproduced: recorded class=%s, now %r" % (want, [v.cls for v in oc.verdicts]))
    for v in oc.verdicts[:3]:
        print("  other verdict: class=%s detail=%s" % (v.cls, v.detail[:900]))
    return 0


# ---- generic shrink helpers used by property modules

def shrink_list(lst, min_len=0):
    """Candidates: drop halves, then single elements."""
    n = len(lst)
    if n <= min_len:
        return
    if n >= 4:
        yield lst[: n // 2]
        yield lst[n // 2:]
    if n >= 8:
        q = n // 4
        for k in range(4):
            yield lst[: k * q] + lst[(k + 1) * q:]
    for i in range(n):
        if n - 1 >= min_len:
            yield lst[:i] + lst[i + 1:]


def with_path(case, path, value):
    c = copy.deepcopy(case)
    d = c
    for k in path[:-1]:
        d = d[k]
    d[path[-1]] = value
    return c


def get_path(case, path, dflt=None):
    d = case
    for k in path:
        if isinstance(d, dict):
            if k not in d:
                return dflt
            d = d[k]
        else:
            d = d[k]
    return d


def loss_shape(want, got):
    """How does the byte string a sink received relate to what was written?  'prefix': a tail is missing; 'gaps': bytes are missing in
    up to 16 contiguous ranges but nothing was altered, added or reordered; 'other': anything else."""
    if want.startswith(got):
        return "prefix"
    import difflib
    ops = difflib.SequenceMatcher(None, want, got, autojunk=False).get_opcodes()
    if all(o[0] in ("equal", "delete") for o in ops) and sum(1 for o in ops if o[0] == "delete") <= 16:
        return "gaps"
    return "other"
