"""Executable R7RS wind model: a CPS interpreter for a small Scheme fragment with call/cc,
dynamic-wind, parameterize, with-exception-handler, raise, raise-continuable and guard.

A program is a nested Python list (s-expression): symbols are `S("name")`, numbers ints, booleans bool,
lists Python lists.  `render` prints it as Scheme text; `run` interprets it and returns (trace, result)
where trace is the list of values passed to (note v).

Dynamic state D = (winds, handlers, params). A continuation captures (k, D). Invoking one from D'
runs the `after` thunks of D'.winds that are not in the common prefix (innermost first), then the
`before` thunks of the target's winds not in the common prefix (outermost first) -- each thunk in the
dynamic state of the corresponding dynamic-wind call -- and then resumes k with the target's D.
"""


class S(str):
    """symbol"""
    __slots__ = ()

    def __repr__(self):
        return "S(%s)" % str.__repr__(self)


class ModelError(Exception):
    pass


class StepLimit(Exception):
    pass


def render(x):
    if isinstance(x, bool):
        return "#t" if x else "#f"
    if isinstance(x, S):
        return str(x)
    if isinstance(x, int):
        return str(x)
    if isinstance(x, str):
        return '"%s"' % x
    if isinstance(x, (list, tuple)):
        if len(x) == 2 and x[0] == S("quote"):
            return "'" + render(x[1])
        return "(" + " ".join(render(e) for e in x) + ")"
    raise ModelError("cannot render %r" % (x,))


def show(v):
    """what (write v) prints for model values"""
    if isinstance(v, bool):
        return "#t" if v else "#f"
    if isinstance(v, S):
        return str(v)
    if isinstance(v, int):
        return str(v)
    if isinstance(v, tuple):
        return "(" + " ".join(show(e) for e in v) + ")"
    if v is None:
        return "#<undef>"
    return "#<procedure>"


class Env:
    __slots__ = ("vars", "parent")

    def __init__(self, parent=None):
        self.vars = {}
        self.parent = parent

    def lookup(self, name):
        e = self
        while e is not None:
            if name in e.vars:
                return e
            e = e.parent
        return None


class Closure:
    __slots__ = ("params", "rest", "body", "env")

    def __init__(self, params, rest, body, env):
        self.params, self.rest, self.body, self.env = params, rest, body, env


class Cont:
    __slots__ = ("k", "dyn")

    def __init__(self, k, dyn):
        self.k, self.dyn = k, dyn


class Param:
    __slots__ = ("init",)

    def __init__(self, init):
        self.init = init


class Prim:
    __slots__ = ("fn", "name")

    def __init__(self, name, fn):
        self.name, self.fn = name, fn


class Wind:
    __slots__ = ("before", "after", "outside")

    def __init__(self, before, after, outside):
        self.before, self.after, self.outside = before, after, outside


class Dyn:
    """dynamic state: immutable"""
    __slots__ = ("winds", "handlers", "params")

    def __init__(self, winds=(), handlers=(), params=()):
        self.winds, self.handlers, self.params = winds, handlers, params

    def with_(self, **kw):
        d = Dyn(self.winds, self.handlers, self.params)
        for k, v in kw.items():
            setattr(d, k, v)
        return d


class Condition:
    """what a handler receives for a secondary 'handler returned' error"""

    def __init__(self, msg):
        self.msg = msg


class Machine:
    def __init__(self, step_limit=200000):
        self.trace = []
        self.steps = 0
        self.limit = step_limit
        self.genv = Env()
        g = self.genv.vars
        g["+"] = Prim("+", lambda *a: sum(a))
        g["-"] = Prim("-", lambda a, *b: -a if not b else a - sum(b))
        g["*"] = Prim("*", lambda a, b: a * b)
        g["="] = Prim("=", lambda a, b: a == b)
        g["<"] = Prim("<", lambda a, b: a < b)
        g[">"] = Prim(">", lambda a, b: a > b)
        g["eq?"] = Prim("eq?", lambda a, b: a is b or (type(a) == type(b) and not isinstance(a, tuple) and a == b))
        g["not"] = Prim("not", lambda a: a is False)
        g["list"] = Prim("list", lambda *a: tuple(a))
        g["cons"] = Prim("cons", lambda a, b: (a,) + tuple(b))
        g["car"] = Prim("car", lambda a: a[0])
        g["cdr"] = Prim("cdr", lambda a: tuple(a[1:]))
        g["null?"] = Prim("null?", lambda a: a == ())
        g["pair?"] = Prim("pair?", lambda a: isinstance(a, tuple) and len(a) > 0)
        g["symbol?"] = Prim("symbol?", lambda a: isinstance(a, S))
        g["number?"] = Prim("number?", lambda a: isinstance(a, int) and not isinstance(a, bool))
        g["procedure?"] = Prim("procedure?", lambda a: isinstance(a, (Closure, Cont, Prim, Param)))
        g["note"] = Prim("note", self._note)
        g["make-parameter"] = Prim("make-parameter", lambda v: Param(v))

    def _note(self, v):
        self.trace.append(show(v))
        return None

    # ---- trampoline
    def run(self, prog):
        """prog: list of top-level forms; returns value of the last one"""
        result = [None]
        done = object()

        def start(i):
            if i == len(prog):
                return done

            def k(v):
                result[0] = v
                return lambda: start(i + 1)
            # every top-level form starts in the empty dynamic state (like the REPL)
            return self.ev(prog[i], self.genv, Dyn(), k)

        th = start(0)
        while th is not done:
            self.steps += 1
            if self.steps > self.limit:
                raise StepLimit()
            th = th()
        return result[0]

    # ---- evaluation (CPS; every k takes a value and returns a thunk)
    def ev(self, x, env, dyn, k):
        if isinstance(x, S):
            e = env.lookup(x)
            if e is None:
                raise ModelError("unbound " + x)
            return lambda: k(e.vars[x])
        if not isinstance(x, list):
            return lambda: k(x)
        if not x:
            return lambda: k(())
        head = x[0]
        if isinstance(head, S):
            h = str(head)
            if h == "quote":
                return lambda: k(self.quote(x[1]))
            if h == "if":
                def kc(c):
                    if c is not False:
                        return self.ev(x[2], env, dyn, k)
                    if len(x) > 3:
                        return self.ev(x[3], env, dyn, k)
                    return lambda: k(None)
                return self.ev(x[1], env, dyn, kc)
            if h == "define":
                if isinstance(x[1], list):
                    name, params = x[1][0], x[1][1:]
                    env.vars[name] = Closure(params, None, x[2:], env)
                    return lambda: k(None)
                def kd(v):
                    env.vars[x[1]] = v
                    return lambda: k(None)
                return self.ev(x[2], env, dyn, kd)
            if h == "set!":
                def ks(v):
                    e = env.lookup(x[1])
                    if e is None:
                        raise ModelError("set! unbound " + x[1])
                    e.vars[x[1]] = v
                    return lambda: k(None)
                return self.ev(x[2], env, dyn, ks)
            if h == "lambda":
                return lambda: k(Closure(x[1], None, x[2:], env))
            if h == "begin":
                return self.seq(x[1:], env, dyn, k)
            if h == "let":
                names = [b[0] for b in x[1]]
                def kl(vals):
                    e2 = Env(env)
                    for n, v in zip(names, vals):
                        e2.vars[n] = v
                    return self.seq(x[2:], e2, dyn, k)
                return self.evlist([b[1] for b in x[1]], env, dyn, kl)
            if h == "parameterize":
                ps = [b[0] for b in x[1]]
                def kp(pvals):
                    def kv(vals):
                        # parameterize = a wind frame whose effect is the binding; model it as dynamic state
                        d2 = dyn.with_(params=dyn.params + tuple(zip(pvals, vals)))
                        return self.seq(x[2:], env, d2, lambda v: (lambda: k(v)))
                    return self.evlist([b[1] for b in x[1]], env, dyn, kv)
                return self.evlist(ps, env, dyn, kp)
            if h == "guard":
                # (guard (var clause...) body...) with clauses ((test) expr...) / (else expr...)
                var = x[1][0]
                clauses = x[1][1:]
                def handler_body(cond_val, raise_dyn, raise_k):
                    e2 = Env(env)
                    e2.vars[var] = cond_val
                    def try_clause(i):
                        if i == len(clauses):
                            # re-raise in the dynamic environment of the original raise
                            return self.do_raise(cond_val, True, raise_dyn.with_(handlers=dyn.handlers), raise_k, reenter_from=dyn)
                        cl = clauses[i]
                        if cl[0] == S("else"):
                            return self.seq(cl[1:], e2, dyn, k)
                        def kt(t):
                            if t is not False:
                                if len(cl) == 1:
                                    return lambda: k(t)
                                return self.seq(cl[1:], e2, dyn, k)
                            return try_clause(i + 1)
                        return self.ev(cl[0], e2, dyn, kt)
                    # escape to the guard's dynamic state first (R7RS), then evaluate the clauses there
                    return self.travel(raise_dyn, dyn, lambda: try_clause(0))
                gh = ("guard", handler_body)
                d2 = dyn.with_(handlers=dyn.handlers + (gh,))
                return self.seq(x[2:], env, d2, lambda v: (lambda: k(v)))
        # application
        def kf(f):
            def ka(args):
                return self.apply(f, list(args), dyn, k)
            return self.evlist(x[1:], env, dyn, ka)
        return self.ev(head, env, dyn, kf)

    def quote(self, q):
        if isinstance(q, list):
            return tuple(self.quote(e) for e in q)
        return q

    def seq(self, body, env, dyn, k):
        if not body:
            return lambda: k(None)
        if len(body) == 1:
            return self.ev(body[0], env, dyn, k)
        return self.ev(body[0], env, dyn, lambda _v: self.seq(body[1:], env, dyn, k))

    def evlist(self, xs, env, dyn, k):
        # left-to-right; generated programs never depend on argument evaluation order
        def go(i, acc):
            if i == len(xs):
                return lambda: k(acc)
            return self.ev(xs[i], env, dyn, lambda v: go(i + 1, acc + [v]))
        return go(0, [])

    def param_value(self, p, dyn):
        for q, v in reversed(dyn.params):
            if q is p:
                return v
        return p.init

    def apply(self, f, args, dyn, k):
        if isinstance(f, Prim):
            return lambda: k(f.fn(*args))
        if isinstance(f, Param):
            return lambda: k(self.param_value(f, dyn))
        if isinstance(f, Closure):
            e2 = Env(f.env)
            if len(args) != len(f.params):
                raise ModelError("arity")
            for n, v in zip(f.params, args):
                e2.vars[n] = v
            return self.seq(f.body, e2, dyn, k)
        if isinstance(f, Cont):
            v = args[0] if args else None
            return self.travel(dyn, f.dyn, lambda: f.k(v))
        if isinstance(f, Special):
            return f.fn(self, args, dyn, k)
        raise ModelError("not applicable: %r" % (f,))

    def travel(self, frm, to, then):
        """run after thunks of frm.winds \\ common (innermost first), before thunks of to.winds \\ common (outermost first)"""
        a, b = frm.winds, to.winds
        n = 0
        while n < len(a) and n < len(b) and a[n] is b[n]:
            n += 1
        outs = list(reversed(a[n:]))
        ins = list(b[n:])

        def do_ins(i):
            if i == len(ins):
                return then
            w = ins[i]
            return lambda: self.apply(w.before, [], w.outside, lambda _v: do_ins(i + 1))

        def do_outs(i):
            if i == len(outs):
                return do_ins(0)
            w = outs[i]
            return lambda: self.apply(w.after, [], w.outside, lambda _v: do_outs(i + 1))
        return do_outs(0)

    def do_raise(self, obj, continuable, dyn, k, reenter_from=None):
        def go():
            if not dyn.handlers:
                raise UncaughtModel(obj)
            h = dyn.handlers[-1]
            outer = dyn.with_(handlers=dyn.handlers[:-1])
            if isinstance(h, tuple) and h[0] == "guard":
                return h[1](obj, dyn, k)
            if continuable:
                return self.apply(h, [obj], outer, k)

            def returned(_v):
                # a handler returned from a non-continuable raise: secondary exception in the handler's context
                return self.do_raise(Condition("exception handler returned"), False, outer, k)
            return self.apply(h, [obj], outer, returned)
        if reenter_from is not None:
            return self.travel(reenter_from, dyn, go)
        return go


class UncaughtModel(Exception):
    def __init__(self, obj):
        self.obj = obj


class Special:
    def __init__(self, fn):
        self.fn = fn


def _callcc(m, args, dyn, k):
    return m.apply(args[0], [Cont(k, dyn)], dyn, k)


def _dynamic_wind(m, args, dyn, k):
    before, thunk, after = args
    w = Wind(before, after, dyn)

    def after_before(_v):
        d2 = dyn.with_(winds=dyn.winds + (w,))

        def after_body(res):
            return m.apply(after, [], dyn, lambda _x: (lambda: k(res)))
        return m.apply(thunk, [], d2, after_body)
    return m.apply(before, [], dyn, after_before)


def _with_handler(m, args, dyn, k):
    handler, thunk = args
    d2 = dyn.with_(handlers=dyn.handlers + (handler,))
    return m.apply(thunk, [], d2, lambda v: (lambda: k(v)))


def _raise(m, args, dyn, k):
    return m.do_raise(args[0], False, dyn, k)


def _raise_c(m, args, dyn, k):
    return m.do_raise(args[0], True, dyn, k)


def make_machine(step_limit=200000):
    m = Machine(step_limit)
    g = m.genv.vars
    g["call/cc"] = Special(_callcc)
    g["call-with-current-continuation"] = g["call/cc"]
    g["dynamic-wind"] = Special(_dynamic_wind)
    g["with-exception-handler"] = Special(_with_handler)
    g["raise"] = Special(_raise)
    g["raise-continuable"] = Special(_raise_c)
    return m


def run(prog, step_limit=200000):
    """Returns (trace, result_string, status) where status in ok / uncaught / steplimit."""
    m = make_machine(step_limit)
    try:
        v = m.run(prog)
        return m.trace, show(v), "ok"
    except UncaughtModel as u:
        return m.trace, show(u.obj) if not isinstance(u.obj, Condition) else u.obj.msg, "uncaught"
    except StepLimit:
        return m.trace, "", "steplimit"
