"""Build variants of /repo (current working tree, hooks on) and chibisim."""
import fcntl
import os
import subprocess
import sys
import time

from .common import BUILD, REPO, VERIF

HOOK_FLAGS = "-Wno-error -DSEXP_VERIF_SIM=1"

VARIANTS = {
    "sim": {"cflags": HOOK_FLAGS, "ldflags": "", "simflags": []},
    "asan": {
        "cflags": HOOK_FLAGS + " -DSEXP_GC_PAD=32 -fsanitize=address -fno-omit-frame-pointer",
        "ldflags": "-fsanitize=address",
        "simflags": ["-fsanitize=address", "-fno-omit-frame-pointer", "-DSEXP_GC_PAD=32"],
    },
    # small buffers / small stack ceiling so short workloads cross the miss paths
    "tiny": {
        "cflags": HOOK_FLAGS + " -DSEXP_PORT_BUFFER_SIZE=128 -DSEXP_INIT_STACK_SIZE=1024 -DSEXP_MAX_STACK_SIZE=32768",
        "ldflags": "",
        "simflags": ["-DSEXP_PORT_BUFFER_SIZE=128", "-DSEXP_INIT_STACK_SIZE=1024", "-DSEXP_MAX_STACK_SIZE=32768"],
    },
}

SIM_SOURCES = ["chibisim.cpp", "json.hpp", "build.sh"]


class BuildError(Exception):
    def __init__(self, cmd, output):
        Exception.__init__(self, "build failed: %s" % " ".join(cmd))
        self.cmd = cmd
        self.output = output

    def interpreter_failed(self):
        """True when the step that failed is one where the freshly built interpreter of this variant runs a program of the
        project itself (chibi-ffi generating a stub module, chibi-genstatic, the .meta/.img generation) -- as opposed to a
        compiler or linker error."""
        import re
        out = self.output
        if re.search(r"\b(error:|undefined reference|ld returned)", out):
            return False
        for m in re.finditer(r"FAILED: [^\n]*\n([^\n]*)", out):
            if "/chibi-scheme " in m.group(1) or m.group(1).rstrip().endswith("/chibi-scheme"):
                return True
        return False


def _run(cmd, env=None, cwd=None):
    p = subprocess.run(cmd, stdout=subprocess.PIPE, stderr=subprocess.STDOUT, env=env, cwd=cwd)
    if p.returncode != 0:
        raise BuildError(cmd, p.stdout.decode("utf-8", "replace")[-8000:])
    return p.stdout


def variant_dir(name):
    return os.path.join(BUILD, name)


def _refresh_stub_includes(d):
    """The project's CMake rules make a generated stub module depend on its .stub file only; C files a stub pulls in with
    (c-include-verbatim "x.c") -- lib/chibi/io/port.c, lib/chibi/signal.c, ... -- are not tracked, so an edit there would be missed by
    an incremental build. Drop the generated C file when an included source is newer; ninja then regenerates and recompiles it."""
    import re
    libroot = os.path.join(REPO, "lib")
    for root, _dirs, files in os.walk(libroot):
        for f in files:
            if not f.endswith(".stub"):
                continue
            stub = os.path.join(root, f)
            try:
                text = open(stub, encoding="utf-8", errors="replace").read()
            except OSError:
                continue
            incs = re.findall(r'\(c-include-verbatim\s+"([^"]+)"\)', text)
            if not incs:
                continue
            gen = os.path.join(d, os.path.relpath(stub, REPO))[:-5] + ".c"
            if not os.path.exists(gen):
                continue
            for inc in incs:
                src = os.path.join(root, inc)
                if os.path.exists(src) and os.path.getmtime(src) > os.path.getmtime(gen):
                    os.remove(gen)
                    break


def build_variant(name, quiet=True):
    """Incremental build of one variant from /repo's working tree. Serialised by flock."""
    v = VARIANTS[name]
    d = variant_dir(name)
    os.makedirs(BUILD, exist_ok=True)
    lock = open(os.path.join(BUILD, ".lock-" + name), "w")
    fcntl.flock(lock, fcntl.LOCK_EX)
    try:
        env = dict(os.environ)
        env["ASAN_OPTIONS"] = "detect_leaks=0:detect_odr_violation=0"
        t0 = time.time()
        if not os.path.exists(os.path.join(d, "build.ninja")):
            cmd = ["cmake", "-G", "Ninja", "-S", REPO, "-B", d, "-DCMAKE_BUILD_TYPE=RelWithDebInfo",
                   "-DCMAKE_C_FLAGS=" + v["cflags"]]
            if v["ldflags"]:
                cmd += ["-DCMAKE_EXE_LINKER_FLAGS=" + v["ldflags"], "-DCMAKE_SHARED_LINKER_FLAGS=" + v["ldflags"]]
            _run(cmd, env=env)
        _refresh_stub_includes(d)
        _run(["ninja", "-C", d, "chibi-scheme", "chibi-compiled-libs"], env=env)
        # chibisim: rebuild when its sources or the core library are newer
        sim = os.path.join(d, "chibisim")
        deps = [os.path.join(VERIF, "sim", s) for s in SIM_SOURCES]
        deps.append(os.path.join(d, "libchibi-scheme.so.0.11.0"))
        deps += [os.path.join(REPO, "include", "chibi", h) for h in ("sexp.h", "eval.h", "features.h", "bignum.h")]
        newest = max(os.path.getmtime(p) for p in deps if os.path.exists(p))
        if not os.path.exists(sim) or os.path.getmtime(sim) < newest:
            _run([os.path.join(VERIF, "sim", "build.sh"), d] + v["simflags"], env=env)
        if not quiet:
            print("built %s in %.1fs" % (name, time.time() - t0))
    finally:
        fcntl.flock(lock, fcntl.LOCK_UN)
        lock.close()
    return d


def build_all(names=None, quiet=True):
    import concurrent.futures as cf
    names = list(names or VARIANTS.keys())
    def one(n):
        try:
            build_variant(n, quiet)
        except BuildError as e:
            e.variant = n
            raise
    with cf.ThreadPoolExecutor(max_workers=len(names)) as ex:
        list(ex.map(one, names))


def modpath(name):
    return os.path.join(variant_dir(name), "lib") + ":" + os.path.join(REPO, "lib")


def sim_cmd(name, imports=(), extra=()):
    cmd = [os.path.join(variant_dir(name), "chibisim"), "--modpath", modpath(name)]
    for i in imports:
        cmd += ["--import", i]
    cmd += list(extra)
    return cmd
