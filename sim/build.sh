#!/bin/sh
# usage: build.sh <variant-build-dir> [extra g++ flags...]
# Builds chibisim against the libchibi-scheme.so in <variant-build-dir>.
set -e
B="$1"; shift
SIM="$(dirname "$0")"
REPO="${VERIF_REPO:-/repo}"
exec g++ -std=c++17 -O1 -g -Wall -Wno-unused-function -Wno-unused-variable \
  -DSEXP_STATIC_LIBRARY=0 -DSEXP_USE_DL=1 -DSEXP_USE_INTTYPES=0 -DSEXP_USE_NTPGETTIME=1 -DSEXP_VERIF_SIM=1 \
  -I"$REPO/include" -I"$B/include" "$@" \
  "$SIM/chibisim.cpp" -o "$B/chibisim" \
  -L"$B" -lchibi-scheme -Wl,-rpath,"$B" -rdynamic -lpthread -ldl
