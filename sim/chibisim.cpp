// chibisim -- deterministic simulation world for chibi-scheme.
//
// One process ("template") boots a real chibi context (real reader, compiler,
// VM, collector, SRFI-18 scheduler, ports, shared-object libraries), installs
// the simulator-owned seams, and then executes *plans*: each plan is run in a
// fork()ed child so that every run starts from a byte-identical image.
// Everything nondeterministic a plan can meet is decided by the plan's tapes:
//   - when the collector runs            (gc.c hooks, SEXP_VERIF_SIM)
//   - how long every green-thread slice is, when interrupts arrive
//                                        (shim in SEXP_G_THREADS_SCHEDULER)
//   - what the clock says, how long sleeps take (interposed libc functions)
//   - how byte streams are delivered / accepted / cut / fail (stream layer)
//   - descriptor limits, which OS thread holds the baton (C13)
//
// Protocol: one JSON plan per line on stdin, one JSON result per line on stdout.
#include <chibi/eval.h>

#include <dlfcn.h>
#include <errno.h>
#include <fcntl.h>
#include <link.h>
#include <poll.h>
#include <pthread.h>
#include <semaphore.h>
#include <signal.h>
#include <sys/mman.h>
#include <sys/syscall.h>
#include <sys/personality.h>
#include <sys/resource.h>
#include <sys/stat.h>
#include <sys/time.h>
#include <sys/wait.h>
#include <time.h>
#include <unistd.h>

#include <algorithm>
#include <cstdarg>
#include <cstdint>
#include <cstdio>
#include <cstdlib>
#include <cstring>
#include <map>
#include <set>
#include <string>
#include <vector>

#include "json.hpp"

#if defined(__SANITIZE_ADDRESS__)
#define SIM_ASAN 1
#include <sanitizer/asan_interface.h>
extern "C" __attribute__((used, noinline)) const char* __asan_default_options() {
  return "exitcode=77:detect_leaks=0:detect_odr_violation=0:abort_on_error=0:"
         "allocator_may_return_null=1:handle_segv=1:print_summary=1:detect_stack_use_after_return=0";
}
extern "C" __attribute__((used, noinline)) const char* __ubsan_default_options() {
  return "print_stacktrace=1:halt_on_error=0";
}
#else
#define SIM_ASAN 0
#endif

#ifndef SEXP_VERIF_SIM
#error "chibisim must be compiled with -DSEXP_VERIF_SIM=1 against a hook-enabled build"
#endif

// ---------------------------------------------------------------------------
// small utilities

static uint64_t fnv1a(uint64_t h, const void* data, size_t n) {
  const unsigned char* p = (const unsigned char*)data;
  for (size_t i = 0; i < n; ++i) { h ^= p[i]; h *= 1099511628211ULL; }
  return h;
}
static const uint64_t FNV0 = 1469598103934665603ULL;

struct Rng {  // xoshiro256**, seeded by splitmix64
  uint64_t s[4];
  static uint64_t splitmix(uint64_t& x) {
    uint64_t z = (x += 0x9e3779b97f4a7c15ULL);
    z = (z ^ (z >> 30)) * 0xbf58476d1ce4e5b9ULL;
    z = (z ^ (z >> 27)) * 0x94d049bb133111ebULL;
    return z ^ (z >> 31);
  }
  explicit Rng(uint64_t seed = 1) { for (auto& v : s) v = splitmix(seed); }
  static uint64_t rotl(uint64_t x, int k) { return (x << k) | (x >> (64 - k)); }
  uint64_t next() {
    uint64_t r = rotl(s[1] * 5, 7) * 9, t = s[1] << 17;
    s[2] ^= s[0]; s[3] ^= s[1]; s[1] ^= s[2]; s[0] ^= s[3]; s[2] ^= t; s[3] = rotl(s[3], 45);
    return r;
  }
  uint64_t below(uint64_t n) { return n ? next() % n : 0; }
};

static std::string hexdecode(const std::string& h) {
  std::string out;
  auto nib = [](char c) -> int { return c <= '9' ? c - '0' : (c | 32) - 'a' + 10; };
  for (size_t i = 0; i + 1 < h.size(); i += 2) out += (char)((nib(h[i]) << 4) | nib(h[i + 1]));
  return out;
}
static std::string hexencode(const std::string& b) {
  static const char* d = "0123456789abcdef";
  std::string out;
  for (unsigned char c : b) { out += d[c >> 4]; out += d[c & 15]; }
  return out;
}

// ---------------------------------------------------------------------------
// The simulated world (one per process; a forked child owns its copy)

struct Violation { std::string cls, detail; };

struct World {
  // ---- identity / log
  uint64_t ev_seq = 0;         // global event sequence number
  uint64_t ev_hash = FNV0;     // hash of the whole event log
  std::vector<std::string> ev_tail;  // bounded tail kept for reports
  size_t ev_keep = 400;
  bool ev_full = false;        // keep all events (for replay --trace)
  std::vector<Violation> violations;
  std::map<std::string, uint64_t> counters;  // faults fired, probes

  // ---- clock
  int64_t now_us = 1700000000LL * 1000000LL;  // simulated epoch
  int64_t slept_us = 0;

  // ---- contexts
  sexp ctx = nullptr;          // main context of the run
  sexp env = nullptr;

  // ---- GC controller
  bool gc_armed = false;
  bool in_gc = false;
  bool in_hook = false;
  uint64_t nalloc = 0;         // allocations seen while armed
  uint64_t alloc_bytes = 0;
  uint64_t gc_forced = 0, gc_natural = 0, gc_max_forced = 0;
  enum GcMode { GC_NONE, GC_POINTS, GC_EVERY, GC_WINDOW, GC_BERNOULLI, GC_AFTERGROW, GC_AFTERBIG } gc_mode = GC_NONE;
  uint64_t gc_big_bytes = 4096; int gc_big_k = 2; int gc_big_left = 0;   // AFTERBIG: collect at the k allocations after one of >= gc_big_bytes
  std::vector<uint64_t> gc_points; size_t gc_pi = 0;
  uint64_t gc_n = 0, gc_off = 0, gc_a = 0, gc_w = 0, gc_p1024 = 0;
  Rng gc_rng{1};
  int gc_scope_step = -1;      // only force inside this step (-1: all)
  int cur_step = -1;
  bool forcing = false;
  bool grew = false;           // a heap segment was created since the last collection
  int heapcheck_every = 0;     // 0: off, n: check every n-th collection
  uint64_t heapchecks = 0;
  bool poison = true;
  uint64_t gc_count = 0;
  uint64_t live_bytes_last = 0, live_bytes_max = 0, heap_total_max = 0;
  uint64_t heap_initial_total = 0;
  uint64_t largest_req = 0;
  std::vector<std::pair<uint64_t, uint64_t>> gc_trace;  // (total, live) per collection (bounded)
  uint64_t growth_c = 0;       // 0: growth bound not asserted
  uint64_t segments_overhead(sexp c) {
    uint64_t n = 0;
    for (sexp_heap h = sexp_context_heap(c); h; h = h->next) n += sexp_heap_align(sexp_free_chunk_size);
    return n;
  }
  std::set<std::string> alloc_sites_hit;

  // ---- scheduler shim / ticks
  sexp_proc1 real_sched = nullptr;
  sexp real_sched_op = nullptr;
  uint64_t ticks = 0;
  uint64_t tick_budget = 0;    // 0: unlimited
  std::vector<int64_t> quantum_tape; size_t q_i = 0;
  int64_t default_quantum = 500;
  std::vector<int64_t> clock_tape; size_t c_i = 0;
  int64_t default_clock_step = 100;  // us per tick
  int64_t interrupt_at_tick = -1;
  int64_t interrupt_rel = -1; int interrupt_rel_step = -1;   // arm the interrupt relative to the start of a step
  bool thread_inv = false;
  bool deadlock_check = false;
  int deadlock_streak = 0;
  uint64_t switches = 0;
  uint64_t sw_hash = FNV0;
  std::map<sexp, int> thread_ids;
  int64_t max_top = 0;
  int64_t max_stack_len = 0;   // largest stack object seen at a tick (any context)
  bool sample_stack = false;

  void event(const char* fmt, ...) __attribute__((format(printf, 2, 3)));
  void violate(const std::string& cls, const std::string& detail);
  int tid(sexp c) {
    auto it = thread_ids.find(c);
    if (it != thread_ids.end()) return it->second;
    int id = (int)thread_ids.size();
    thread_ids[c] = id;
    return id;
  }
};

static World W;

void World::event(const char* fmt, ...) {
  char buf[512];
  va_list ap;
  va_start(ap, fmt);
  int n = vsnprintf(buf, sizeof buf, fmt, ap);
  va_end(ap);
  if (n < 0) n = 0;
  if (n >= (int)sizeof buf) n = sizeof buf - 1;
  ++ev_seq;
  ev_hash = fnv1a(ev_hash, buf, n);
  ev_hash = fnv1a(ev_hash, "\n", 1);
  if (ev_full || ev_tail.size() < ev_keep) {
    ev_tail.emplace_back(buf, n);
  } else {
    ev_tail[ev_seq % ev_keep] = std::string(buf, n);
  }
}

void World::violate(const std::string& cls, const std::string& detail) {
  if (violations.size() < 16) violations.push_back({cls, detail});
  event("VIOLATION %s %s", cls.c_str(), detail.c_str());
}

// ---------------------------------------------------------------------------
// Simulated clock: interposed libc entry points. chibisim is linked with
// -rdynamic, so libchibi-scheme.so and every chibi module bind to these.

static bool g_clock_on = false;

extern "C" {
int gettimeofday(struct timeval* tv, void* tz) __THROW {
  (void)tz;
  if (tv) { tv->tv_sec = W.now_us / 1000000; tv->tv_usec = W.now_us % 1000000; }
  return 0;
}
int clock_gettime(clockid_t id, struct timespec* ts) __THROW {
  (void)id;
  if (ts) { ts->tv_sec = W.now_us / 1000000; ts->tv_nsec = (W.now_us % 1000000) * 1000; }
  return 0;
}
time_t time(time_t* t) __THROW {
  time_t v = W.now_us / 1000000;
  if (t) *t = v;
  return v;
}
int usleep(useconds_t us) {
  W.now_us += us; W.slept_us += us;
  W.counters["sleep_calls"]++;
  return 0;
}
int nanosleep(const struct timespec* req, struct timespec* rem) {
  if (req) { int64_t us = req->tv_sec * 1000000LL + req->tv_nsec / 1000; W.now_us += us; W.slept_us += us; }
  if (rem) { rem->tv_sec = 0; rem->tv_nsec = 0; }
  W.counters["sleep_calls"]++;
  return 0;
}
unsigned int sleep(unsigned int s) {
  W.now_us += (int64_t)s * 1000000; W.slept_us += (int64_t)s * 1000000;
  return 0;
}
}


static std::set<FILE*> g_closed_files;
static bool g_closed_files_contains(FILE* f) { return g_closed_files.count(f) != 0; }
static void g_closed_files_add(FILE* f) { g_closed_files.insert(f); }

// ---------------------------------------------------------------------------
// Descriptor layer: fopen/fclose/open/close are interposed (the executable's
// definitions win over libc's for libchibi and the modules) so that every
// release is logged with its event sequence number and double releases are
// verdicts rather than silent reuse of somebody else's descriptor.

static bool g_fd_track = false;
static std::set<FILE*> g_live_files;
static std::set<int> g_tracked_fds;
// fault: close() calls (by ordinal, counted while tracking) that release the descriptor but report EINTR / EIO, as Linux does
static std::set<uint64_t> g_close_fail;
static uint64_t g_close_calls = 0;

static void forget_fd_stream(int fd);
static int count_open_fds() {
  int n = 0;
  for (int fd = 0; fd < 4096; ++fd)
    if (fcntl(fd, F_GETFD) != -1) ++n;
  return n;
}

extern "C" {
typedef FILE* (*fopen_fn)(const char*, const char*);
typedef int (*fclose_fn)(FILE*);
typedef int (*close_fn)(int);

FILE* fopen(const char* path, const char* mode) {
  static fopen_fn real = (fopen_fn)dlsym(RTLD_NEXT, "fopen");
  FILE* f = real(path, mode);
  if (g_fd_track) {
    if (f) {
      g_live_files.insert(f);
      g_closed_files.erase(f);
      g_tracked_fds.insert(fileno(f));
      W.event("fopen fd=%d", fileno(f));
      W.counters["fopen_ok"]++;
    } else {
      W.event("fopen-failed errno=%d", errno);
      W.counters[errno == EMFILE ? "fopen_emfile" : "fopen_failed"]++;
    }
  }
  return f;
}
int fclose(FILE* f) {
  static fclose_fn real = (fclose_fn)dlsym(RTLD_NEXT, "fclose");
  if (g_fd_track && f) {
    auto it = g_live_files.find(f);
    if (it != g_live_files.end()) {
      int fd = fileno(f);
      g_live_files.erase(it);
      g_tracked_fds.erase(fd);
      W.event("fclose fd=%d", fd);
      W.counters["fclose"]++;
    }
  }
  return real(f);
}
int close(int fd) {
  static close_fn real = (close_fn)dlsym(RTLD_NEXT, "close");
  forget_fd_stream(fd);
  int r = real(fd);
  if (g_fd_track) {
    int e = errno;
    if (g_close_fail.count(g_close_calls++) && r == 0) {
      r = -1;
      e = (g_close_calls & 1) ? EINTR : EIO;
      W.counters["close_reported_failure"]++;
    }
    W.event("close fd=%d r=%d", fd, r);
    W.counters["close"]++;
    if (r != 0 && e == EBADF) {
      char msg[96];
      snprintf(msg, sizeof msg, "close(%d) on a descriptor that is not open (released twice)", fd);
      W.violate("fd:double-close", msg);
    }
    g_tracked_fds.erase(fd);
    errno = e;
  }
  return r;
}
}

// ---------------------------------------------------------------------------
// Heap walking / poisoning (simulator code over the public macros of sexp.h)

static const unsigned char POISON_BYTE = 0xEC;  // low bits 00: reads as a non-canonical pointer

static inline void poison_region(void* p, size_t n) {
#if SIM_ASAN
  ASAN_POISON_MEMORY_REGION(p, n);
#else
  memset(p, POISON_BYTE, n);
#endif
}
static inline void unpoison_region(void* p, size_t n) {
#if SIM_ASAN
  ASAN_UNPOISON_MEMORY_REGION(p, n);
#else
  (void)p; (void)n;
#endif
}

static void poison_free_chunks(sexp_heap h) {
  sexp_free_list q = h->free_list;
  if (!q) return;
  for (sexp_free_list r = q->next; r; r = r->next) {
    if (r->size > sexp_free_chunk_size)
      poison_region((char*)r + sexp_free_chunk_size, r->size - sexp_free_chunk_size);
  }
}
static void unpoison_heap(sexp_heap h) {
  unpoison_region(h->data, h->size);
}

struct HeapStats { uint64_t total = 0, free_bytes = 0, live_bytes = 0, objects = 0, marked_bytes = 0, free_chunks = 0; };

static bool in_ctx_heap(sexp ctx, void* p) {
  for (sexp_heap h = sexp_context_heap(ctx); h; h = h->next)
    if ((char*)p >= (char*)h->data && (char*)p < (char*)h->data + h->size) return true;
  return false;
}

// phase: 1 = after mark (count marked bytes only, structure as before sweep),
//        2 = after sweep (full invariant)
static HeapStats walk_heap(sexp ctx, int phase, bool check_refs) {
  HeapStats st;
  char msg[256];
  std::vector<std::vector<char*>> starts;
  std::vector<sexp_heap> heaps;
  sexp_uint_t ntypes = sexp_context_num_types(ctx);
  for (sexp_heap h = sexp_context_heap(ctx); h; h = h->next) {
    heaps.push_back(h);
    starts.emplace_back();
    auto& sv = starts.back();
    st.total += h->size;
    char* end = (char*)sexp_heap_end(h);
    char* p = (char*)sexp_heap_first_block(h);
    sexp_free_list q = h->free_list;
    if ((char*)q != h->data || q->size != 0) {
      W.violate("heap:sentinel", "free-list sentinel damaged");
      return st;
    }
    sexp_free_list r = q->next;
    char* last_free_end = p;
    (void)last_free_end;
    size_t guard = 0;
    while (p < end) {
      if (++guard > 50000000) { W.violate("heap:walk", "walk does not terminate"); return st; }
      if (r && (char*)r == p) {
        size_t sz = r->size;
        if (sz < sexp_heap_align(1) || (sz & (sexp_heap_align(1) - 1)) || p + sz > end) {
          snprintf(msg, sizeof msg, "free chunk +%zu bad size %zu (heap size %zu)", (size_t)(p - h->data), sz, (size_t)h->size);
          W.violate("heap:free-size", msg);
          return st;
        }
        sexp_free_list nx = r->next;
        if (nx && ((char*)nx < p + sz || (char*)nx >= end)) {
          snprintf(msg, sizeof msg, "free list not sorted/disjoint at +%zu size %zu next +%zd", (size_t)(p - h->data), sz, (ssize_t)((char*)nx - h->data));
          W.violate("heap:free-order", msg);
          return st;
        }
        st.free_bytes += sz;
        st.free_chunks++;
        p += sz;
        r = nx;
        continue;
      }
      if (r && (char*)r < p) {
        snprintf(msg, sizeof msg, "free chunk +%zd lies inside an object ending at +%zu", (ssize_t)((char*)r - h->data), (size_t)(p - h->data));
        W.violate("heap:tiling", msg);
        return st;
      }
      sexp x = (sexp)p;
      sexp_uint_t tag = sexp_pointer_tag(x);
      if (tag >= ntypes) {
        snprintf(msg, sizeof msg, "object +%zu has tag %lu >= num_types %lu", (size_t)(p - h->data), (unsigned long)tag, (unsigned long)ntypes);
        W.violate("heap:tiling", msg);
        return st;
      }
      sexp ty = sexp_object_type(ctx, x);
      size_t sz = (ty && sexp_pointerp(ty)) ? sexp_heap_align(sexp_type_size_of_object(ty, x) + SEXP_GC_PAD) : 0;
      if (sz == 0 || p + sz > end || (r && p + sz > (char*)r)) {
        snprintf(msg, sizeof msg, "object +%zu tag %lu size %zu overruns next free chunk/segment end", (size_t)(p - h->data), (unsigned long)tag, sz);
        W.violate("heap:tiling", msg);
        return st;
      }
      if (phase == 1) {
        if (sexp_markedp(x)) st.marked_bytes += sz;
      } else {
        if (sexp_markedp(x)) {
          if (phase == 0) {
            // (the mark bit doubles as a visited flag in the reader's datum-label pass: whatever borrows it must clear it again)
            snprintf(msg, sizeof msg, "object +%zu tag %lu already carries a mark bit when a collection starts: it will be taken for traced", (size_t)(p - h->data), (unsigned long)tag);
            W.violate("heap:stale-mark-bit", msg);
          } else {
            snprintf(msg, sizeof msg, "object +%zu tag %lu still marked after sweep", (size_t)(p - h->data), (unsigned long)tag);
            W.violate("heap:markbit", msg);
          }
          return st;
        }
        sv.push_back(p);
      }
      st.live_bytes += sz;
      st.objects++;
      p += sz;
    }
    if (p != end || r != NULL) {
      snprintf(msg, sizeof msg, "walk ended at +%zd of %zu, free list %s", (ssize_t)(p - h->data), (size_t)h->size, r ? "not exhausted" : "exhausted");
      W.violate("heap:tiling", msg);
      return st;
    }
  }
  if (phase == 2 && check_refs) {
    auto is_start = [&](sexp v) -> int {
      for (size_t i = 0; i < heaps.size(); ++i) {
        sexp_heap h = heaps[i];
        if ((char*)v >= h->data && (char*)v < h->data + h->size) {
          return std::binary_search(starts[i].begin(), starts[i].end(), (char*)v) ? 1 : 0;
        }
      }
      return -1;  // outside this context's heap
    };
    for (size_t i = 0; i < heaps.size(); ++i) {
      for (char* p : starts[i]) {
        sexp x = (sexp)p;
        sexp t = sexp_object_type(ctx, x);
        if (!t || !sexp_pointerp(t)) continue;
        sexp_sint_t n = sexp_type_num_slots_of_object(t, x);
        sexp* f = (sexp*)(p + sexp_type_field_base(t));
        for (sexp_sint_t k = 0; k < n; ++k) {
          sexp v = f[k];
          if (!v || !sexp_pointerp(v)) continue;
          int s = is_start(v);
          if (s != 1) {
            snprintf(msg, sizeof msg, "object tag %lu (+%zu in seg %zu) slot %ld -> %s", (unsigned long)sexp_pointer_tag(x),
                     (size_t)(p - heaps[i]->data), i, (long)k, s == 0 ? "not the start of a live object" : "outside this context's heap");
            W.violate(s == 0 ? "heap:dangling-ref" : "heap:foreign-ref", msg);
            return st;
          }
        }
#if SEXP_USE_WEAK_REFERENCES
        // an ephemeron's value is neither a traced nor a weak slot of its type (the collector handles it in its own fixpoint pass):
        // after a collection it is either cleared together with the key or a live object
        if (sexp_pointer_tag(x) == SEXP_EPHEMERON) {
          sexp v = sexp_ephemeron_value(x);
          if (v && sexp_pointerp(v)) {
            int s = is_start(v);
            if (s != 1) {
              snprintf(msg, sizeof msg, "ephemeron (+%zu in seg %zu, key %s) value -> %s", (size_t)(p - heaps[i]->data), i,
                       sexp_pointerp(sexp_ephemeron_key(x)) ? "alive" : "immediate",
                       s == 0 ? "not the start of a live object" : "outside this context's heap");
              W.violate(s == 0 ? "heap:dangling-ephemeron-value" : "heap:foreign-ref", msg);
              return st;
            }
          }
        }
#endif
        if (sexp_type_weak_base(t) > 0) {
          sexp_sint_t wn = sexp_type_num_weak_slots_of_object(t, x);
          sexp* wf = (sexp*)(p + sexp_type_weak_base(t));
          for (sexp_sint_t k = 0; k < wn; ++k) {
            sexp v = wf[k];
            if (!v || !sexp_pointerp(v)) continue;
            int s = is_start(v);
            if (s != 1) {
              snprintf(msg, sizeof msg, "object tag %lu weak slot %ld -> %s", (unsigned long)sexp_pointer_tag(x), (long)k,
                       s == 0 ? "not the start of a live object" : "outside this context's heap");
              W.violate(s == 0 ? "heap:dangling-weak" : "heap:foreign-ref", msg);
              return st;
            }
          }
        }
      }
    }
  }
  return st;
}

// ---------------------------------------------------------------------------
// gc.c hooks

static bool gc_should_force(uint64_t idx) {
  if (W.gc_max_forced && W.gc_forced >= W.gc_max_forced) return false;
  if (W.gc_scope_step >= 0 && W.cur_step != W.gc_scope_step) return false;
  switch (W.gc_mode) {
    case World::GC_NONE: return false;
    case World::GC_POINTS:
      while (W.gc_pi < W.gc_points.size() && W.gc_points[W.gc_pi] < idx) ++W.gc_pi;
      if (W.gc_pi < W.gc_points.size() && W.gc_points[W.gc_pi] == idx) { ++W.gc_pi; return true; }
      return false;
    case World::GC_EVERY: return W.gc_n && idx >= W.gc_off && ((idx - W.gc_off) % W.gc_n) == 0;
    case World::GC_WINDOW: return idx >= W.gc_a && idx < W.gc_a + W.gc_w;
    case World::GC_BERNOULLI: return (W.gc_rng.next() & 1023) < W.gc_p1024;
    case World::GC_AFTERGROW: if (W.grew) { W.grew = false; return true; } return false;
    case World::GC_AFTERBIG: if (W.gc_big_left > 0) { W.gc_big_left--; return true; } return false;
  }
  return false;
}

static void hook_alloc(sexp ctx, size_t size) {
  if (!W.gc_armed || W.in_gc || W.in_hook) return;
  if (!W.ctx || sexp_context_heap(ctx) != sexp_context_heap(W.ctx)) return;
  uint64_t idx = W.nalloc++;
  W.alloc_bytes += size;
  if (size > W.largest_req) W.largest_req = size;
  bool force = gc_should_force(idx);
  // (a big allocation -- a grown VM stack, a vector, a string buffer -- arms collections at the allocations that follow it)
  if (W.gc_mode == World::GC_AFTERBIG && size >= W.gc_big_bytes) W.gc_big_left = W.gc_big_k;
  if (force) {
    W.forcing = true;
    W.event("gc-force alloc=%llu size=%zu step=%d", (unsigned long long)idx, size, W.cur_step);
    sexp_gc(ctx, NULL);
    W.forcing = false;
    W.gc_forced++;
  }
}

static void hook_took(sexp ctx, void* chunk, size_t size, size_t chunk_size) {
  (void)ctx;
#if SIM_ASAN
  size_t n = size;
  if (chunk_size >= size + sexp_heap_align(1)) n = size + sexp_free_chunk_size;  // header of the tail chunk
  if (n > chunk_size) n = chunk_size;
  unpoison_region(chunk, n);
#else
  if (W.poison && W.gc_armed && chunk_size >= size && size > sexp_free_chunk_size) {
    const unsigned char* b = (const unsigned char*)chunk;
    for (size_t i = sexp_free_chunk_size; i < size; ++i) {
      if (b[i] != POISON_BYTE) {
        char msg[160];
        snprintf(msg, sizeof msg, "free chunk modified at byte %zu of %zu (value 0x%02x) before reallocation", i, size, b[i]);
        W.violate("heap:write-after-free", msg);
        break;
      }
    }
  }
#endif
}

static void hook_done(sexp ctx, void* res, size_t req, size_t size) {
  (void)ctx; (void)res; (void)req; (void)size;
#if SIM_ASAN
  if (!W.poison || !res || !sexp_pointerp((sexp)res)) return;
  if (!W.ctx || !in_ctx_heap(ctx, res)) return;
  // a failed allocation returns the shared out-of-memory error object, not a fresh chunk
  if ((sexp)res == sexp_global(ctx, SEXP_G_OOM_ERROR)) return;
  if (size > req) poison_region((char*)res + req, size - req);
#endif
}

static void hook_gc(sexp ctx, int phase) {
  if (phase == 0) {
    W.in_gc = true;
    if (W.ctx && sexp_context_heap(ctx) == sexp_context_heap(W.ctx) && W.gc_armed && W.heapcheck_every && (W.gc_count % W.heapcheck_every) == 0) {
      W.in_hook = true;
      walk_heap(ctx, 0, false);
      W.in_hook = false;
    }
    return;
  }
  bool mine = W.ctx && sexp_context_heap(ctx) == sexp_context_heap(W.ctx);
  if (phase == 1) {
    if (mine && W.heapcheck_every && (W.gc_count % W.heapcheck_every) == 0 && W.gc_armed) {
      W.in_hook = true;
      HeapStats st = walk_heap(ctx, 1, false);
      W.in_hook = false;
      W.live_bytes_last = st.marked_bytes;
      if (st.marked_bytes > W.live_bytes_max) W.live_bytes_max = st.marked_bytes;
    }
    return;
  }
  // phase 2: after sweep
  if (mine) {
    if (!W.forcing) W.gc_natural++;
    if (W.gc_armed && W.heapcheck_every && (W.gc_count % W.heapcheck_every) == 0) {
      W.in_hook = true;
      HeapStats st = walk_heap(ctx, 2, true);
      W.in_hook = false;
      W.heapchecks++;
      if (W.violations.empty() && st.live_bytes != W.live_bytes_last) {
        // conservation: what survives the sweep is exactly what the mark phase reached
        char msg[200];
        snprintf(msg, sizeof msg, "after sweep %llu bytes in %llu objects remain allocated but the mark phase reached %llu bytes (delta %lld): unreachable storage not returned to the free list",
                 (unsigned long long)st.live_bytes, (unsigned long long)st.objects, (unsigned long long)W.live_bytes_last,
                 (long long)st.live_bytes - (long long)W.live_bytes_last);
        W.violate("heap:not-recycled", msg);
      }
      if (W.violations.empty() && st.live_bytes + st.free_bytes + W.segments_overhead(ctx) != st.total) {
        char msg[200];
        snprintf(msg, sizeof msg, "live %llu + free %llu + sentinels %llu != total %llu", (unsigned long long)st.live_bytes,
                 (unsigned long long)st.free_bytes, (unsigned long long)W.segments_overhead(ctx), (unsigned long long)st.total);
        W.violate("heap:accounting", msg);
      }
      if (W.growth_c && W.violations.empty()) {
        uint64_t bound = W.growth_c * (W.live_bytes_max + 2 * W.largest_req);
        if (bound < W.heap_initial_total) bound = W.heap_initial_total;
        if (st.total > bound) {
          char msg[200];
          snprintf(msg, sizeof msg, "heap total %llu > max(initial %llu, %llu x (max live %llu + 2 x largest request %llu))", (unsigned long long)st.total,
                   (unsigned long long)W.heap_initial_total, (unsigned long long)W.growth_c, (unsigned long long)W.live_bytes_max, (unsigned long long)W.largest_req);
          W.violate("heap:unbounded-growth", msg);
        }
      }
      if (st.total > W.heap_total_max) W.heap_total_max = st.total;
      if (W.gc_trace.size() < 4096) W.gc_trace.emplace_back(st.total, W.live_bytes_last);
      if (!W.forcing)
        W.event("gc-natural n=%llu", (unsigned long long)W.gc_count);
    }
    W.gc_count++;
    W.grew = false;
  }
  if (W.poison) {
    for (sexp_heap h = sexp_context_heap(ctx); h; h = h->next) poison_free_chunks(h);
  }
  W.in_gc = false;
}

static void hook_heap(sexp_heap h, int created) {
  if (created) {
    W.grew = true;
    W.counters["heap_segments_created"]++;
    if (W.poison) poison_free_chunks(h);
  } else {
    unpoison_heap(h);
  }
}

static void install_gc_hooks() {
  sexp_verif_hooks.alloc = hook_alloc;
  sexp_verif_hooks.took = hook_took;
  sexp_verif_hooks.done = hook_done;
  sexp_verif_hooks.gc = hook_gc;
  sexp_verif_hooks.heap = hook_heap;
}

// ---------------------------------------------------------------------------
// Output capture and helpers

static std::string sexp_to_std(sexp ctx, sexp s) {
  if (sexp_stringp(s)) return std::string(sexp_string_data(s), sexp_string_size(s));
  return "";
}

static std::string write_to_string(sexp ctx, sexp x) {
  sexp_gc_var2(s, keep);
  sexp_gc_preserve2(ctx, s, keep);
  keep = x;
  s = sexp_write_to_string(ctx, x);
  std::string r = sexp_stringp(s) ? sexp_to_std(ctx, s) : "#<unwritable>";
  sexp_gc_release2(ctx);
  return r;
}

static std::string exception_to_string(sexp ctx, sexp e) {
  sexp_gc_var3(p, s, keep);
  sexp_gc_preserve3(ctx, p, s, keep);
  keep = e;
  std::string r;
  p = sexp_open_output_string(ctx);
  if (sexp_oportp(p)) {
    sexp_print_exception(ctx, e, p);
    s = sexp_get_output_string(ctx, p);
    r = sexp_to_std(ctx, s);
  } else {
    r = "#<exception>";
  }
  sexp_gc_release3(ctx);
  while (!r.empty() && r.back() == '\n') r.pop_back();
  return r;
}

struct Capture {
  char* buf = nullptr;
  size_t len = 0;
  FILE* f = nullptr;
  size_t consumed = 0;
  sexp port = nullptr;
};
static Capture g_out, g_err;

static void capture_install(sexp ctx, sexp env) {
  g_out.f = open_memstream(&g_out.buf, &g_out.len);
  g_err.f = open_memstream(&g_err.buf, &g_err.len);
  sexp_gc_var1(p);
  sexp_gc_preserve1(ctx, p);
  p = sexp_make_output_port(ctx, g_out.f, SEXP_FALSE);
  sexp_port_no_closep(p) = 1;
  sexp_set_parameter(ctx, env, sexp_global(ctx, SEXP_G_CUR_OUT_SYMBOL), p);
  sexp_preserve_object(ctx, p);
  g_out.port = p;
  // the error port is captured separately: it is not part of any transcript
  // (error reports print object addresses)
  p = sexp_make_output_port(ctx, g_err.f, SEXP_FALSE);
  sexp_port_no_closep(p) = 1;
  sexp_set_parameter(ctx, env, sexp_global(ctx, SEXP_G_CUR_ERR_SYMBOL), p);
  sexp_preserve_object(ctx, p);
  g_err.port = p;
  sexp_gc_release1(ctx);
}
static std::string capture_take_from(sexp ctx, Capture& c) {
  if (!c.f) return "";
  if (c.port) sexp_flush(ctx, c.port);
  fflush(c.f);
  std::string r(c.buf + c.consumed, c.len - c.consumed);
  c.consumed = c.len;
  return r;
}
static std::string capture_take(sexp ctx) { return capture_take_from(ctx, g_out); }


// ---------------------------------------------------------------------------
// Stream layer: one byte source/sink abstraction with three front ends
//   cookie  -- FILE* made by fopencookie (stdio path: getc/ungetc/fwrite)
//   fd      -- a descriptor whose read/write/poll are interposed (fileno ports; would-block + readiness)
//   custom  -- foreign reader/writer behind (chibi io) custom ports
// Every call consumes the next entry of the stream's chunk tape:
//   n > 0  transfer at most n bytes      0  transfer everything asked for (default when the tape is exhausted)
//   n < 0  would-block for -n ticks (fd kind only)      STREAM_EIO  fail once with EIO

static const int64_t STREAM_EIO = -1000000;

struct Stream {
  std::string name, kind;
  bool input = true;
  std::string data;      // input: bytes still to deliver (from pos)
  size_t pos = 0;
  std::string sink;      // output: bytes accepted so far
  std::vector<int64_t> chunks;
  size_t ci = 0;
  int fd = -1;
  uint64_t ready_tick = 0;
  bool closed = false;
  uint64_t calls = 0, shorts = 0, blocks = 0, eios = 0, eofs = 0;

  int64_t next_entry() { return ci < chunks.size() ? chunks[ci++] : 0; }

  // returns bytes transferred, 0 for EOF (input), or -1 with errno set
  // a descriptor stream honours the O_NONBLOCK state of its handle: chibi switches a port to blocking mode
  // around C-level reads (sexp_maybe_block_port); a blocking read waits until data is there
  bool blocking_mode() {
    if (kind != "fd" || fd < 0) return false;
    int fl = fcntl(fd, F_GETFL);
    return fl >= 0 && !(fl & O_NONBLOCK);
  }
  ssize_t do_read(char* buf, size_t req) {
    calls++;
    bool blk = blocking_mode();
    if (kind == "fd" && W.ticks < ready_tick) {
      if (!blk) { errno = EAGAIN; return -1; }
      ready_tick = 0; W.counters["stream_blocking_wait"]++;
    }
    size_t remaining = data.size() - pos;
    if (req == 0) return 0;
    int64_t e = next_entry();
    while (blk && e < 0 && e != STREAM_EIO) { W.counters["stream_blocking_wait"]++; e = next_entry(); }
    if (e == STREAM_EIO) { eios++; W.counters["stream_eio"]++; W.event("stream %s read EIO", name.c_str()); errno = EIO; return -1; }
    if (e < 0) {
      if (kind == "fd" && remaining > 0) {
        blocks++; W.counters["stream_would_block"]++;
        ready_tick = W.ticks + (uint64_t)(-e);
        W.event("stream %s read EAGAIN until tick %llu", name.c_str(), (unsigned long long)ready_tick);
        errno = EAGAIN;
        return -1;
      }
      e = 1;
    }
    if (remaining == 0) { eofs++; W.counters["stream_eof"]++; return 0; }
    size_t n = req < remaining ? req : remaining;
    if (e > 0 && (size_t)e < n) { n = (size_t)e; shorts++; W.counters["stream_short_read"]++; }
    // probe: a multi-byte UTF-8 sequence split by this delivery
    unsigned char last = (unsigned char)data[pos + n - 1];
    if (pos + n < data.size() && ((last & 0x80) && ((unsigned char)data[pos + n] & 0xC0) == 0x80)) W.counters["probe:utf8_split_by_delivery"]++;
    memcpy(buf, data.data() + pos, n);
    pos += n;
    W.event("stream %s read %zu", name.c_str(), n);
    return (ssize_t)n;
  }
  ssize_t do_write(const char* buf, size_t len) {
    calls++;
    bool blk = blocking_mode();
    if (kind == "fd" && W.ticks < ready_tick) {
      if (!blk) { errno = EAGAIN; return -1; }
      ready_tick = 0; W.counters["stream_blocking_wait"]++;
    }
    if (len == 0) return 0;
    int64_t e = next_entry();
    while (blk && e < 0 && e != STREAM_EIO) { W.counters["stream_blocking_wait"]++; e = next_entry(); }
    if (e == STREAM_EIO) { eios++; W.counters["stream_eio"]++; W.event("stream %s write EIO", name.c_str()); errno = EIO; return -1; }
    if (e < 0) {
      if (kind == "fd") {
        blocks++; W.counters["stream_would_block"]++;
        ready_tick = W.ticks + (uint64_t)(-e);
        W.event("stream %s write EAGAIN until tick %llu", name.c_str(), (unsigned long long)ready_tick);
        errno = EAGAIN;
        return -1;
      }
      e = 1;
    }
    size_t n = len;
    // (a blocking write(2) on a pipe or socket returns only when everything has been written, signals apart: no short counts there)
    if (e > 0 && (size_t)e < n && !(blk && kind == "fd")) { n = (size_t)e; shorts++; W.counters["stream_short_write"]++; }
    sink.append(buf, n);
    W.event("stream %s write %zu", name.c_str(), n);
    return (ssize_t)n;
  }
};

static std::map<std::string, Stream*> g_streams;
static std::map<int, Stream*> g_fd_streams;

static void forget_fd_stream(int fd) {
  auto it = g_fd_streams.find(fd);
  if (it != g_fd_streams.end()) { it->second->closed = true; it->second->fd = -1; g_fd_streams.erase(it); }
}

static Stream* stream_by_name(sexp ctx, sexp name) {
  std::string n = sexp_stringp(name) ? sexp_to_std(ctx, name) : "";
  auto it = g_streams.find(n);
  return it == g_streams.end() ? nullptr : it->second;
}

static ssize_t cookie_read(void* c, char* buf, size_t n) { return ((Stream*)c)->do_read(buf, n); }
static ssize_t cookie_write(void* c, const char* buf, size_t n) {
  // stdio treats a short count from a cookie writer as an error, so accept everything, in tape-sized pieces
  Stream* st = (Stream*)c;
  size_t off = 0;
  while (off < n) {
    ssize_t r = st->do_write(buf + off, n - off);
    if (r <= 0) return 0;   // fopencookie: 0 signals an error (EIO fault)
    off += (size_t)r;
  }
  return (ssize_t)off;
}
static int cookie_close(void* c) { ((Stream*)c)->closed = true; return 0; }

extern "C" {
typedef ssize_t (*read_fn)(int, void*, size_t);
typedef ssize_t (*write_fn)(int, const void*, size_t);
typedef int (*poll_fn)(struct pollfd*, nfds_t, int);

ssize_t read(int fd, void* buf, size_t n) {
  static read_fn real = (read_fn)dlsym(RTLD_NEXT, "read");
  if (!g_fd_streams.empty()) {
    auto it = g_fd_streams.find(fd);
    if (it != g_fd_streams.end()) return it->second->do_read((char*)buf, n);
  }
  return real(fd, buf, n);
}
ssize_t write(int fd, const void* buf, size_t n) {
  static write_fn real = (write_fn)dlsym(RTLD_NEXT, "write");
  if (!g_fd_streams.empty()) {
    auto it = g_fd_streams.find(fd);
    if (it != g_fd_streams.end()) return it->second->do_write((const char*)buf, n);
  }
  return real(fd, buf, n);
}
int poll(struct pollfd* fds, nfds_t nfds, int timeout) {
  static poll_fn real = (poll_fn)dlsym(RTLD_NEXT, "poll");
  if (g_fd_streams.empty()) return real(fds, nfds, timeout);
  int ready = 0;
  for (nfds_t i = 0; i < nfds; ++i) {
    auto it = g_fd_streams.find(fds[i].fd);
    fds[i].revents = 0;
    if (it != g_fd_streams.end()) {
      Stream* st = it->second;
      if (W.ticks >= st->ready_tick) fds[i].revents = st->input ? (fds[i].events & POLLIN) : (fds[i].events & POLLOUT);
      if (fds[i].revents) ++ready;
    } else {
      struct pollfd one = fds[i];
      if (real(&one, 1, 0) > 0) { fds[i].revents = one.revents; ++ready; }
    }
  }
  return ready;
}
}

static sexp sim_stream_kind_proc(sexp ctx, sexp self, sexp_sint_t n, sexp name) {
  (void)self; (void)n;
  Stream* st = stream_by_name(ctx, name);
  if (!st) return SEXP_FALSE;
  return sexp_c_string(ctx, st->kind.c_str(), -1);
}

static sexp sim_open_stream_aux(sexp ctx, sexp self, sexp_sint_t n, sexp name, int binary);
static sexp sim_open_stream_proc(sexp ctx, sexp self, sexp_sint_t n, sexp name) { return sim_open_stream_aux(ctx, self, n, name, 0); }
static sexp sim_open_binary_stream_proc(sexp ctx, sexp self, sexp_sint_t n, sexp name) { return sim_open_stream_aux(ctx, self, n, name, 1); }
static sexp sim_open_stream_aux(sexp ctx, sexp self, sexp_sint_t n, sexp name, int binary) {
  Stream* st = stream_by_name(ctx, name);
  if (!st) return sexp_user_exception(ctx, self, "no such simulated stream", name);
  sexp_gc_var2(res, fno);
  sexp_gc_preserve2(ctx, res, fno);
  if (st->kind == "cookie") {
    cookie_io_functions_t io = {cookie_read, cookie_write, nullptr, cookie_close};
    FILE* f = fopencookie(st, st->input ? "r" : "w", io);
    res = st->input ? sexp_make_input_port(ctx, f, name) : sexp_make_output_port(ctx, f, name);
  } else if (st->kind == "fd") {
    if (st->fd < 0) {
      st->fd = open("/dev/null", O_RDWR | O_NONBLOCK);
      g_fd_streams[st->fd] = st;
    }
    fno = sexp_make_fileno(ctx, sexp_make_fixnum(st->fd), SEXP_FALSE);
    res = st->input ? sexp_open_input_file_descriptor(ctx, self, 2, fno, SEXP_FALSE)
                    : sexp_open_output_file_descriptor(ctx, self, 2, fno, SEXP_FALSE);
    if (sexp_portp(res)) sexp_port_binaryp(res) = binary;
  } else {
    res = sexp_user_exception(ctx, self, "custom streams are opened through (chibi io)", name);
  }
  sexp_gc_release2(ctx);
  return res;
}

// custom port reader: (sim-custom-read name buf start end) -> new end position
static sexp sim_custom_read_proc(sexp ctx, sexp self, sexp_sint_t n, sexp name, sexp buf, sexp start, sexp end) {
  (void)n;
  Stream* st = stream_by_name(ctx, name);
  if (!st || !sexp_fixnump(start) || !sexp_fixnump(end)) return sexp_user_exception(ctx, self, "bad custom read", name);
  char* data; size_t cap;
  if (sexp_stringp(buf)) { data = sexp_string_data(buf); cap = sexp_string_size(buf); }
  else if (sexp_bytesp(buf)) { data = sexp_bytes_data(buf); cap = sexp_bytes_length(buf); }
  else return sexp_user_exception(ctx, self, "bad custom read buffer", buf);
  sexp_sint_t s0 = sexp_unbox_fixnum(start), e0 = sexp_unbox_fixnum(end);
  if (s0 < 0 || e0 < s0 || (size_t)e0 > cap) return sexp_user_exception(ctx, self, "custom read range outside buffer", buf);
  ssize_t k = st->do_read(data + s0, (size_t)(e0 - s0));
  if (k < 0) k = 0;
  return sexp_make_fixnum(s0 + k);
}
static sexp sim_custom_write_proc(sexp ctx, sexp self, sexp_sint_t n, sexp name, sexp buf, sexp start, sexp end) {
  (void)n;
  Stream* st = stream_by_name(ctx, name);
  if (!st || !sexp_fixnump(start) || !sexp_fixnump(end)) return sexp_user_exception(ctx, self, "bad custom write", name);
  const char* data; size_t cap;
  if (sexp_stringp(buf)) { data = sexp_string_data(buf); cap = sexp_string_size(buf); }
  else if (sexp_bytesp(buf)) { data = sexp_bytes_data(buf); cap = sexp_bytes_length(buf); }
  else return sexp_user_exception(ctx, self, "bad custom write buffer", buf);
  sexp_sint_t s0 = sexp_unbox_fixnum(start), e0 = sexp_unbox_fixnum(end);
  if (s0 < 0 || e0 < s0 || (size_t)e0 > cap) return sexp_user_exception(ctx, self, "custom write range outside buffer", buf);
  // the custom-port protocol has no partial-write continuation: accept everything, in tape-sized pieces
  size_t off = 0, len = (size_t)(e0 - s0);
  while (off < len) {
    ssize_t k = st->do_write(data + s0 + off, len - off);
    if (k <= 0) break;
    off += (size_t)k;
  }
  return sexp_make_fixnum((sexp_sint_t)off);
}

static void configure_streams(const js::Value& plan) {
  const js::Value* ss = plan.get("streams");
  if (!ss || ss->kind != js::Value::Obj) return;
  for (auto& kv : ss->o) {
    Stream* st = new Stream();
    st->name = kv.first;
    st->kind = kv.second->gets("kind", "cookie");
    st->input = kv.second->gets("dir", "in") == "in";
    st->data = hexdecode(kv.second->gets("data", ""));
    st->chunks = kv.second->getiv("chunks");
    g_streams[st->name] = st;
  }
}

// ---------------------------------------------------------------------------
// Scheduler shim: the tick source. Calls the real SRFI-18 scheduler when it is
// loaded; decides the next slice length, advances the clock, raises interrupts,
// enforces the tick budget, samples the stack, checks queue invariants.

static void finish_and_exit(const char* status);  // forward

static bool proper_list(sexp ls, size_t* len, sexp* last) {
  size_t n = 0;
  sexp prev = SEXP_NULL;
  for (; sexp_pairp(ls); ls = sexp_cdr(ls)) {
    prev = ls;
    if (++n > 1000000) return false;
  }
  if (len) *len = n;
  if (last) *last = prev;
  // the scheduler only ever tests sexp_pairp, so any non-pair terminates a queue (the paused
  // list starts out as the globals vector's fill value, not '())
  return !sexp_pointerp(ls) || !sexp_pairp(ls);
}

static void check_thread_queues(sexp ctx, sexp current, const char* when) {
  char msg[200];
  sexp front = sexp_global(ctx, SEXP_G_THREADS_FRONT);
  sexp back = sexp_global(ctx, SEXP_G_THREADS_BACK);
  sexp paused = sexp_global(ctx, SEXP_G_THREADS_PAUSED);
  size_t nf = 0, np = 0;
  sexp lastf = SEXP_NULL, lastp = SEXP_NULL;
  if (!proper_list(front, &nf, &lastf)) { W.violate("sched:runq-shape", std::string(when) + ": run queue is not a proper list"); return; }
  if (paused && !proper_list(paused, &np, &lastp)) { W.violate("sched:paused-shape", std::string(when) + ": paused list is not a proper list"); return; }
  if (nf > 0 && back != lastf) {
    snprintf(msg, sizeof msg, "%s: THREADS_BACK is not the last pair of the run queue (len %zu)", when, nf);
    W.violate("sched:back", msg);
    return;
  }
  if (nf == 0 && sexp_pairp(back)) {
    // tolerated by the implementation only if front is empty and back stale? The scheduler
    // tests pairp(BACK) to decide how to enqueue, so a stale BACK with an empty FRONT loses threads.
    snprintf(msg, sizeof msg, "%s: run queue empty but THREADS_BACK is a pair", when);
    W.violate("sched:back", msg);
    return;
  }
  std::set<sexp> seen;
  for (sexp l = front; sexp_pairp(l); l = sexp_cdr(l)) {
    sexp t = sexp_car(l);
    if (!sexp_contextp(t)) { W.violate("sched:runq-elem", std::string(when) + ": non-thread in run queue"); return; }
    if (!seen.insert(t).second) {
      snprintf(msg, sizeof msg, "%s: thread %d appears twice in the run queue", when, W.tid(t));
      W.violate("sched:duplicate", msg);
      return;
    }
  }
  bool untimed_seen = false;
  struct timeval prev = {0, 0};
  if (paused) for (sexp l = paused; sexp_pairp(l); l = sexp_cdr(l)) {
    sexp t = sexp_car(l);
    if (!sexp_contextp(t)) { W.violate("sched:paused-elem", std::string(when) + ": non-thread in paused list"); return; }
    if (!seen.insert(t).second) {
      snprintf(msg, sizeof msg, "%s: thread %d appears in two scheduler lists (or twice in paused)", when, W.tid(t));
      W.violate("sched:duplicate", msg);
      return;
    }
    struct timeval tv = sexp_context_timeval(t);
    bool timed = tv.tv_sec != 0 || tv.tv_usec != 0;
    if (timed) {
      if (untimed_seen) {
        snprintf(msg, sizeof msg, "%s: timed thread %d queued behind an untimed one", when, W.tid(t));
        W.violate("sched:paused-order", msg);
        return;
      }
      if (tv.tv_sec < prev.tv_sec || (tv.tv_sec == prev.tv_sec && tv.tv_usec < prev.tv_usec)) {
        snprintf(msg, sizeof msg, "%s: paused deadlines out of order at thread %d", when, W.tid(t));
        W.violate("sched:paused-order", msg);
        return;
      }
      prev = tv;
    } else {
      untimed_seen = true;
    }
  }
  (void)current;
}

static sexp sim_scheduler(sexp ctx, sexp self, sexp_sint_t n, sexp root_thread) {
  W.ticks++;
  // clock advances by the tape's step for this tick
  int64_t step = W.c_i < W.clock_tape.size() ? W.clock_tape[W.c_i++] : W.default_clock_step;
  if (step < 0) step = 0;
  W.now_us += step;
  if (W.sample_stack) {
    int64_t top = sexp_context_top(ctx);
    if (top > W.max_top) W.max_top = top;
    int64_t slen = sexp_stack_length(sexp_context_stack(ctx));
    if (slen > W.max_stack_len) W.max_stack_len = slen;
  }
  if (W.tick_budget && W.ticks > W.tick_budget) {
    W.violate("budget", "tick budget exceeded (no termination within the step bound)");
    finish_and_exit("budget");
  }
  sexp res = ctx;
  if (W.real_sched) {
    if (W.thread_inv) check_thread_queues(ctx, ctx, "before");
    if (W.thread_inv) {
      unsigned char* ip = sexp_context_ip(ctx);
      if (ip) { char nm[32]; snprintf(nm, sizeof nm, "preempt_op:%u", (unsigned)*ip); W.counters[nm]++; }
      if (sexp_context_waitp(ctx)) W.counters["entry_while_waiting"]++;
    }
    res = ((sexp_proc2)W.real_sched)(ctx, W.real_sched_op, n, root_thread);
    if (W.thread_inv) check_thread_queues(ctx, res, "after");
    if (W.deadlock_check && sexp_contextp(res) && sexp_context_waitp(res) && sexp_context_refuel(res) > 0
        && !sexp_pairp(sexp_global(ctx, SEXP_G_THREADS_FRONT))) {
      // the only thread left is waiting: is there anything that can still wake somebody up?
      bool can_wake = false;
      auto waits_on_time_or_fd = [](sexp t) {
        struct timeval tv = sexp_context_timeval(t);
        if (tv.tv_sec != 0 || tv.tv_usec != 0) return true;
        sexp e = sexp_context_event(t);
        return e && (sexp_portp(e) || sexp_fixnump(e) || sexp_filenop(e));
      };
      if (waits_on_time_or_fd(res)) can_wake = true;
      sexp paused = sexp_global(ctx, SEXP_G_THREADS_PAUSED);
      if (paused) for (sexp l = paused; sexp_pairp(l); l = sexp_cdr(l))
        if (sexp_contextp(sexp_car(l)) && waits_on_time_or_fd(sexp_car(l))) can_wake = true;
      if (!can_wake) {
        if (++W.deadlock_streak >= 3) {
          char msg[160];
          snprintf(msg, sizeof msg, "no runnable thread, no timed or descriptor waiter: thread %d waits forever (tick %llu)", W.tid(res), (unsigned long long)W.ticks);
          W.violate("sched:lost-wakeup", msg);
          finish_and_exit("deadlock");
        }
      } else {
        W.deadlock_streak = 0;
      }
    } else {
      W.deadlock_streak = 0;
    }
    if (res != ctx) {
      W.switches++;
      int a = W.tid(ctx), b = W.tid(res);
      unsigned char rec[3] = {(unsigned char)a, (unsigned char)b, (unsigned char)(sexp_context_waitp(ctx) ? 1 : (sexp_context_refuel(ctx) <= 0 ? 2 : 0))};
      W.sw_hash = fnv1a(W.sw_hash, rec, 3);
      if (W.ev_full) W.event("switch %d->%d tick=%llu", a, b, (unsigned long long)W.ticks);
    }
  }
  if (sexp_contextp(res) && sexp_context_refuel(res) > 0) {
    int64_t q = W.q_i < W.quantum_tape.size() ? W.quantum_tape[W.q_i++] : W.default_quantum;
    if (q < 1) q = 1;
    sexp_context_refuel(res) = q;
    if (W.interrupt_at_tick >= 0 && (int64_t)W.ticks == W.interrupt_at_tick) {
      sexp_context_interruptp(res) = 1;
      W.counters["interrupts_raised"]++;
      W.event("interrupt tick=%llu", (unsigned long long)W.ticks);
    }
  }
  return res;
}

static void install_sched_shim(sexp ctx) {
  sexp cur = sexp_global(ctx, SEXP_G_THREADS_SCHEDULER);
  if (cur && sexp_opcodep(cur) && sexp_opcode_func(cur) && sexp_opcode_func(cur) != (sexp_proc1)sim_scheduler) {
    W.real_sched = sexp_opcode_func(cur);
    W.real_sched_op = cur;
    sexp_preserve_object(ctx, cur);
  }
  sexp_gc_var1(op);
  sexp_gc_preserve1(ctx, op);
  op = sexp_make_foreign(ctx, "scheduler", 1, 0, "sim_scheduler", (sexp_proc1)sim_scheduler, SEXP_FALSE);
  sexp_global(ctx, SEXP_G_THREADS_SCHEDULER) = op;
  sexp_gc_release1(ctx);
}

// ---------------------------------------------------------------------------
// Foreign procedures visible to workloads

static sexp sim_gc_proc(sexp ctx, sexp self, sexp_sint_t n) {
  (void)self; (void)n;
  W.forcing = true;
  W.event("gc-explicit step=%d", W.cur_step);
  sexp_gc(ctx, NULL);
  W.forcing = false;
  W.gc_forced++;
  return SEXP_VOID;
}
static sexp sim_mark_proc(sexp ctx, sexp self, sexp_sint_t n, sexp x) {
  (void)self; (void)n;
  std::string s = write_to_string(ctx, x);
  W.event("mark %s", s.c_str());
  return SEXP_VOID;
}
struct StackSample { int64_t label, top, len; };
static std::vector<StackSample> g_stack_samples;
static sexp sim_probe_proc(sexp ctx, sexp self, sexp_sint_t n, sexp label) {
  (void)self; (void)n;
  StackSample s;
  s.label = sexp_fixnump(label) ? sexp_unbox_fixnum(label) : -1;
  s.top = sexp_context_top(ctx);
  s.len = sexp_stack_length(sexp_context_stack(ctx));
  if (g_stack_samples.size() < 4096) g_stack_samples.push_back(s);
  return SEXP_VOID;
}
static sexp sim_now_proc(sexp ctx, sexp self, sexp_sint_t n) {
  (void)self; (void)n;
  return sexp_make_integer(ctx, W.now_us);
}
// a foreign call that takes simulated time: (sim-burn us) models a long non-preemptible C call
static sexp sim_burn_proc(sexp ctx, sexp self, sexp_sint_t n, sexp us) {
  (void)ctx; (void)self; (void)n;
  if (sexp_fixnump(us) && sexp_unbox_fixnum(us) > 0) { W.now_us += sexp_unbox_fixnum(us); W.counters["burn_calls"]++; }
  return SEXP_VOID;
}
static sexp sim_ticks_proc(sexp ctx, sexp self, sexp_sint_t n) {
  (void)self; (void)n;
  return sexp_make_integer(ctx, W.ticks);
}
static sexp sim_count_proc(sexp ctx, sexp self, sexp_sint_t n, sexp name) {
  (void)self; (void)n;
  if (sexp_stringp(name)) W.counters[std::string("probe:") + sexp_to_std(ctx, name)]++;
  else if (sexp_symbolp(name)) W.counters[std::string("probe:") + write_to_string(ctx, name)]++;
  return SEXP_VOID;
}

static sexp sim_open_fd_proc(sexp ctx, sexp self, sexp_sint_t n, sexp noclose) {
  (void)self; (void)n;
  int fd = open("/repo/README.md", O_RDONLY);
  W.event("sim-open-fd fd=%d", fd);
  return sexp_make_fileno(ctx, sexp_make_fixnum(fd), sexp_truep(noclose) ? SEXP_TRUE : SEXP_FALSE);
}

static void define_sim_procs(sexp ctx, sexp env) {
  sexp_define_foreign(ctx, env, "sim-open-fd", 1, sim_open_fd_proc);
  sexp_define_foreign(ctx, env, "sim-stream-kind", 1, sim_stream_kind_proc);
  sexp_define_foreign(ctx, env, "sim-open-stream", 1, sim_open_stream_proc);
  sexp_define_foreign(ctx, env, "sim-open-binary-stream", 1, sim_open_binary_stream_proc);
  sexp_define_foreign(ctx, env, "sim-custom-read", 4, sim_custom_read_proc);
  sexp_define_foreign(ctx, env, "sim-custom-write", 4, sim_custom_write_proc);
  sexp_define_foreign(ctx, env, "sim-gc", 0, sim_gc_proc);
  sexp_define_foreign(ctx, env, "sim-mark", 1, sim_mark_proc);
  sexp_define_foreign(ctx, env, "sim-probe", 1, sim_probe_proc);
  sexp_define_foreign(ctx, env, "sim-now-us", 0, sim_now_proc);
  sexp_define_foreign(ctx, env, "sim-ticks", 0, sim_ticks_proc);
  sexp_define_foreign(ctx, env, "sim-burn", 1, sim_burn_proc);
  sexp_define_foreign(ctx, env, "sim-count", 1, sim_count_proc);
}

// ---------------------------------------------------------------------------
// Context construction (mirrors main.c: standard env, (scheme small) repl env)

struct BootCfg {
  std::string libdir;   // build dir with .so modules
  std::string srcdir;   // /repo/lib
  std::vector<std::string> imports;
  size_t heap = 0, heap_max = 0;
  long stack_len = 0;   // 0: default
};
static BootCfg g_boot;

static sexp make_stack(sexp ctx_for_alloc, long len) {
  (void)ctx_for_alloc; (void)len;
  return SEXP_FALSE;
}

static bool boot_context(const BootCfg& cfg, sexp* pctx, sexp* penv, std::string* err) {
  sexp ctx = sexp_make_eval_context(NULL, NULL, NULL, cfg.heap, cfg.heap_max);
  if (!ctx || sexp_exceptionp(ctx)) { *err = "cannot create context"; return false; }
  sexp_gc_var3(tmp, e, res);
  sexp_gc_preserve3(ctx, tmp, e, res);
  sexp env = sexp_context_env(ctx);
  e = sexp_load_standard_env(ctx, env, SEXP_SEVEN);
  if (sexp_exceptionp(e)) { *err = "load_standard_env: " + exception_to_string(ctx, e); sexp_gc_release3(ctx); return false; }
  e = sexp_eval_string(ctx, "(mutable-environment '(scheme small))", -1, sexp_global(ctx, SEXP_G_META_ENV));
  if (sexp_exceptionp(e)) { *err = "default env: " + exception_to_string(ctx, e); sexp_gc_release3(ctx); return false; }
  {
    tmp = sexp_intern(ctx, "repl-import", -1);
    res = sexp_env_ref(ctx, sexp_global(ctx, SEXP_G_META_ENV), tmp, SEXP_VOID);
    tmp = sexp_intern(ctx, "import", -1);
    sexp_env_define(ctx, e, tmp, res);
  }
  sexp_load_standard_ports(ctx, e, stdin, stdout, stderr, 1);
  res = sexp_make_env(ctx);
  sexp_env_parent(res) = e;
  sexp_context_env(ctx) = res;
  sexp_set_parameter(ctx, sexp_global(ctx, SEXP_G_META_ENV), sexp_global(ctx, SEXP_G_INTERACTION_ENV_SYMBOL), res);
  env = res;
  for (auto& imp : cfg.imports) {
    std::string form = "(import " + imp + ")";
    tmp = sexp_eval_string(ctx, form.c_str(), -1, env);
    if (sexp_exceptionp(tmp)) { *err = "import " + imp + ": " + exception_to_string(ctx, tmp); sexp_gc_release3(ctx); return false; }
  }
  define_sim_procs(ctx, env);
  sexp_gc_release3(ctx);
  *pctx = ctx;
  *penv = env;
  return true;
}

// ---------------------------------------------------------------------------
// Plan execution

struct StepResult { std::string out, res, err; bool exc = false; int64_t top_after = 0; uint64_t allocs = 0; };
static std::vector<StepResult> g_results;
static int g_resfd = 1;
static const js::Value* g_plan = nullptr;
static int64_t g_plan_id = 0;
static bool g_finished = false;

static void emit_result(const char* status) {
  js::Writer w;
  w.begin_obj();
  w.kv("id", g_plan_id);
  w.kv("status", status);
  char hb[32];
  snprintf(hb, sizeof hb, "%016llx", (unsigned long long)W.ev_hash);
  w.kv("ev_hash", hb);
  snprintf(hb, sizeof hb, "%016llx", (unsigned long long)W.sw_hash);
  w.kv("sw_hash", hb);
  w.kv("events", (uint64_t)W.ev_seq);
  w.key("steps"); w.begin_arr();
  for (auto& s : g_results) {
    w.begin_obj();
    w.kv("out", s.out); w.kv("res", s.res); if (!s.err.empty()) w.kv("err", s.err); w.kv("exc", s.exc); w.kv("top", s.top_after); w.kv("allocs", s.allocs);
    w.end_obj();
  }
  w.end_arr();
  w.key("violations"); w.begin_arr();
  for (auto& v : W.violations) { w.begin_obj(); w.kv("class", v.cls); w.kv("detail", v.detail); w.end_obj(); }
  w.end_arr();
  w.key("stats"); w.begin_obj();
  w.kv("allocs", W.nalloc); w.kv("alloc_bytes", W.alloc_bytes);
  w.kv("gc_forced", W.gc_forced); w.kv("gc_natural", W.gc_natural); w.kv("heapchecks", W.heapchecks);
  w.kv("ticks", W.ticks); w.kv("switches", W.switches);
  w.kv("sim_us", (int64_t)(W.now_us - 1700000000LL * 1000000LL)); w.kv("slept_us", W.slept_us);
  w.kv("live_max", W.live_bytes_max); w.kv("heap_max", W.heap_total_max); w.kv("heap_initial", W.heap_initial_total);
  w.kv("largest_req", W.largest_req); w.kv("max_top", W.max_top); w.kv("max_stack_len", W.max_stack_len);
  w.kv("threads", (int64_t)W.thread_ids.size());
  w.end_obj();
  w.key("counters"); w.begin_obj();
  for (auto& kv : W.counters) w.kv(kv.first.c_str(), kv.second);
  w.end_obj();
  if (!g_streams.empty()) {
    w.key("streams"); w.begin_obj();
    for (auto& kv : g_streams) {
      Stream* st = kv.second;
      w.key(kv.first.c_str()); w.begin_obj();
      if (!st->input) w.kv("sink", hexencode(st->sink));
      else w.kv("consumed", (uint64_t)st->pos);
      w.kv("calls", st->calls); w.kv("shorts", st->shorts); w.kv("blocks", st->blocks); w.kv("eios", st->eios);
      w.end_obj();
    }
    w.end_obj();
  }
  if (!g_stack_samples.empty()) {
    w.key("stack"); w.begin_arr();
    for (auto& s : g_stack_samples) { w.begin_arr(); w.num(s.label); w.num(s.top); w.num(s.len); w.end_arr(); }
    w.end_arr();
  }
  if (!W.gc_trace.empty()) {
    w.key("gc_trace"); w.begin_arr();
    size_t stride = W.gc_trace.size() > 64 ? W.gc_trace.size() / 64 : 1;
    for (size_t i = 0; i < W.gc_trace.size(); i += stride) { w.begin_arr(); w.unum(W.gc_trace[i].first); w.unum(W.gc_trace[i].second); w.end_arr(); }
    w.end_arr();
  }
  bool want_events = W.ev_full || !W.violations.empty();
  if (want_events) {
    w.key("event_tail"); w.begin_arr();
    if (W.ev_full || W.ev_seq <= W.ev_keep) {
      for (auto& e : W.ev_tail) w.str(e);
    } else {
      for (size_t k = 1; k <= W.ev_keep; ++k) w.str(W.ev_tail[(W.ev_seq + k) % W.ev_keep]);
    }
    w.end_arr();
  }
  w.end_obj();
  w.out += '\n';
  const char* p = w.out.data();
  size_t n = w.out.size();
  while (n) {
    ssize_t k = write(g_resfd, p, n);
    if (k < 0) { if (errno == EINTR) continue; break; }
    p += k; n -= k;
  }
}

static void finish_and_exit(const char* status) {
  if (!g_finished) {
    g_finished = true;
    W.gc_armed = false;
    emit_result(status);
  }
  _exit(0);
}

static void configure_world(const js::Value& plan) {
  const js::Value* gc = plan.get("gc");
  if (gc) {
    std::string mode = gc->gets("mode", "none");
    if (mode == "points") { W.gc_mode = World::GC_POINTS; for (auto v : gc->getiv("points")) W.gc_points.push_back((uint64_t)v); std::sort(W.gc_points.begin(), W.gc_points.end()); }
    else if (mode == "every") { W.gc_mode = World::GC_EVERY; W.gc_n = gc->geti("n", 1); W.gc_off = gc->geti("off", 0); }
    else if (mode == "window") { W.gc_mode = World::GC_WINDOW; W.gc_a = gc->geti("a", 0); W.gc_w = gc->geti("w", 1); }
    else if (mode == "bernoulli") { W.gc_mode = World::GC_BERNOULLI; W.gc_p1024 = gc->geti("p1024", 16); W.gc_rng = Rng(gc->geti("seed", 1)); }
    else if (mode == "aftergrow") { W.gc_mode = World::GC_AFTERGROW; }
    else if (mode == "afterbig") { W.gc_mode = World::GC_AFTERBIG; W.gc_big_bytes = gc->geti("min_bytes", 4096); W.gc_big_k = (int)gc->geti("k", 2); }
    W.gc_scope_step = (int)gc->geti("scope_step", -1);
    W.heapcheck_every = (int)gc->geti("heapcheck_every", 0);
    W.poison = gc->getb("poison", true);
    W.growth_c = gc->geti("growth_c", 0);
    W.gc_max_forced = gc->geti("max_forced", 0);
  }
  const js::Value* sc = plan.get("sched");
  if (sc) {
    W.quantum_tape = sc->getiv("quantum");
    W.default_quantum = sc->geti("default_q", 500);
    W.clock_tape = sc->getiv("clock_step");
    W.default_clock_step = sc->geti("default_clock_step", 100);
    W.interrupt_at_tick = sc->geti("interrupt_at_tick", -1);
    W.interrupt_rel = sc->geti("interrupt_rel", -1);
    W.interrupt_rel_step = (int)sc->geti("interrupt_rel_step", -1);
    W.tick_budget = sc->geti("tick_budget", 0);
    W.thread_inv = sc->getb("thread_inv", false);
    W.deadlock_check = sc->getb("deadlock_check", false);
    W.sample_stack = sc->getb("sample_stack", false);
  }
  W.ev_full = plan.getb("trace", false);
}

static void run_eval_step(sexp ctx, sexp env, const std::string& src, StepResult& sr) {
  sexp_gc_var4(in, x, res, str);
  sexp_gc_preserve4(ctx, in, x, res, str);
  str = sexp_c_string(ctx, src.c_str(), src.size());
  in = sexp_open_input_string(ctx, str);
  res = SEXP_VOID;
  for (;;) {
    x = sexp_read(ctx, in);
    if (x == SEXP_EOF) break;
    if (sexp_exceptionp(x)) { res = x; break; }
    sexp_context_top(ctx) = 0;
    res = sexp_eval(ctx, x, env);
    if (res && sexp_exceptionp(res)) break;
  }
  sr.exc = res && sexp_exceptionp(res);
  if (sr.exc) sr.res = exception_to_string(ctx, res);
  else sr.res = write_to_string(ctx, res);
  sr.top_after = sexp_context_top(ctx);
  sexp_gc_release4(ctx);
}


// ---------------------------------------------------------------------------
// Embedder ops (C02 family 3): structures built through the C API and held ONLY in C locals registered
// through the documented preservation interface (sexp_gc_var / sexp_gc_preserve, sexp_preserve_object)
// while further allocations (and forced collections) happen; afterwards every register is written out.
// Script: list of [op, dst, a, b, text]; registers 0..7.

// does `from` reach `target` through pairs and vectors? (bounded; "yes" when the bound is hit)
static bool embed_reaches(sexp from, sexp target) {
  std::vector<sexp> todo{from};
  std::set<sexp> seen;
  while (!todo.empty()) {
    sexp x = todo.back(); todo.pop_back();
    if (x == target) return true;
    if (!x || !sexp_pointerp(x) || !seen.insert(x).second) continue;
    if (seen.size() > 20000) return true;
    if (sexp_pairp(x)) { todo.push_back(sexp_car(x)); todo.push_back(sexp_cdr(x)); }
    else if (sexp_vectorp(x)) for (sexp_uint_t i = 0; i < sexp_vector_length(x); ++i) todo.push_back(sexp_vector_ref(x, sexp_make_fixnum(i)));
  }
  return false;
}

static bool g_check_release = false;   // knob (C10): what the embedder released must not stay a collector root

static std::string run_embed_script(sexp ctx, sexp env, const js::Value& script) {
  sexp_gc_var4(r0, r1, r2, r3);
  sexp r4 = SEXP_VOID, r5 = SEXP_VOID, r6 = SEXP_VOID, r7 = SEXP_VOID, t1 = SEXP_VOID, t2 = SEXP_VOID;
  sexp_gc_preserve4(ctx, r0, r1, r2, r3);
  // second group registered separately (two levels of the saves chain)
  struct sexp_gc_var_t __sv4 = {NULL, NULL}, __sv5 = {NULL, NULL}, __sv6 = {NULL, NULL}, __sv7 = {NULL, NULL};
  sexp_gc_preserve(ctx, r4, __sv4); sexp_gc_preserve(ctx, r5, __sv5); sexp_gc_preserve(ctx, r6, __sv6); sexp_gc_preserve(ctx, r7, __sv7);
  struct sexp_gc_var_t __st1 = {NULL, NULL}, __st2 = {NULL, NULL};
  sexp_gc_preserve(ctx, t1, __st1); sexp_gc_preserve(ctx, t2, __st2);
  sexp* R[8] = {&r0, &r1, &r2, &r3, &r4, &r5, &r6, &r7};
  for (int i = 0; i < 8; ++i) *R[i] = SEXP_NULL;
  std::vector<sexp> kept;   // objects handed to sexp_preserve_object and then dropped from the registers
  std::set<sexp> ever_kept;
  for (auto& opv : script.a) {
    const js::Value& o = *opv;
    if (o.kind != js::Value::Arr || o.a.size() < 4) continue;
    std::string op = o.a[0]->s;
    int d = (int)o.a[1]->i & 7, a = (int)o.a[2]->i & 7, b = (int)o.a[3]->i & 7;
    std::string text = o.a.size() > 4 ? o.a[4]->s : "";
    int64_t num = o.a[2]->i;
    if (op == "cons") *R[d] = sexp_cons(ctx, *R[a], *R[b]);
    else if (op == "list2") *R[d] = sexp_list2(ctx, *R[a], *R[b]);
    else if (op == "list3") { t1 = sexp_list2(ctx, *R[a], *R[b]); *R[d] = sexp_cons(ctx, *R[d], t1); }
    else if (op == "string") *R[d] = sexp_c_string(ctx, text.c_str(), (sexp_sint_t)text.size());
    else if (op == "intern") *R[d] = sexp_intern(ctx, text.c_str(), -1);
    else if (op == "fixnum") *R[d] = sexp_make_fixnum(num);
    else if (op == "flonum") *R[d] = sexp_make_flonum(ctx, (double)num / 8.0);
    else if (op == "bignum") { t1 = sexp_make_integer(ctx, (sexp_lsint_t)num * 1000003); t2 = sexp_make_integer(ctx, (sexp_lsint_t)1 << 62); *R[d] = sexp_mul(ctx, t1, t2); }
    else if (op == "vector") { *R[d] = sexp_make_vector(ctx, sexp_make_fixnum((num & 15) + 1), *R[b]); }
    else if (op == "vset") {
      // (never closes a cycle: the transcript is produced by the plain writer)
      if (sexp_vectorp(*R[d]) && sexp_vector_length(*R[d]) > 0 && !embed_reaches(*R[a], *R[d])) sexp_vector_set(*R[d], SEXP_ZERO, *R[a]);
    }
    else if (op == "push") { sexp_push(ctx, *R[d], *R[a]); }
    else if (op == "apply") {
      t1 = sexp_eval_string(ctx, text.c_str(), -1, env);
      if (!sexp_exceptionp(t1)) { t2 = sexp_list2(ctx, *R[a], *R[b]); *R[d] = sexp_apply(ctx, t1, t2); }
    }
    else if (op == "eval") *R[d] = sexp_eval_string(ctx, text.c_str(), -1, env);
    else if (op == "read") *R[d] = sexp_read_from_string(ctx, text.c_str(), -1);
    else if (op == "write") { t1 = sexp_write_to_string(ctx, *R[a]); *R[d] = t1; }
    else if (op == "keep") { sexp_preserve_object(ctx, *R[a]); kept.push_back(*R[a]); if (sexp_pointerp(*R[a])) ever_kept.insert(*R[a]); *R[a] = SEXP_NULL; }
    else if (op == "release") { if (!kept.empty()) { *R[d] = kept.back(); sexp_release_object(ctx, kept.back()); kept.pop_back(); } }
    else if (op == "release0") { if (!kept.empty()) { *R[d] = kept.front(); sexp_release_object(ctx, kept.front()); kept.erase(kept.begin()); } }
    else if (op == "bigvec") { *R[d] = sexp_make_vector(ctx, sexp_make_fixnum((num & 0xffff) + 1), SEXP_ZERO); }
    else if (op == "churn") { for (int64_t k = 0; k < (num & 255); ++k) { t1 = sexp_cons(ctx, sexp_make_fixnum(k), SEXP_NULL); t2 = sexp_c_string(ctx, "junk", -1); } }
  }
  std::string out;
  for (int i = 0; i < 8; ++i) { out += write_to_string(ctx, *R[i]); out += "\n"; }
  for (size_t i = 0; i < kept.size(); ++i) { out += "kept: " + write_to_string(ctx, kept[i]) + "\n"; }
  for (auto k : kept) sexp_release_object(ctx, k);
  if (g_check_release) {
    // every sexp_preserve_object of this script has been undone by a sexp_release_object: none of those objects may still be on the
    // context's list of preserved objects (it would stay a root, and its memory would never be recycled)
    size_t left = 0;
    for (sexp ls = sexp_global(ctx, SEXP_G_PRESERVATIVES); sexp_pairp(ls); ls = sexp_cdr(ls))
      if (ever_kept.count(sexp_car(ls))) ++left;
    if (left) {
      char msg[160];
      snprintf(msg, sizeof msg, "%zu object(s) released with sexp_release_object are still on the preserved-objects list (of %zu preserved by the script)", left, ever_kept.size());
      W.violate("heap:released-object-still-rooted", msg);
    }
  }
  sexp_gc_release4(ctx);   // releases back to the state before r0 (the chain is LIFO: releasing the first group drops the rest)
  return out;
}

static int g_base_fds = 0;
static bool g_destroyed = false;

static void run_c13(const js::Value& plan);

static void run_plan(const js::Value& plan) {
  g_plan = &plan;
  g_plan_id = plan.geti("id", 0);
  if (plan.get("c13")) { run_c13(plan); return; }
  configure_world(plan);
  configure_streams(plan);
  sexp ctx = W.ctx, env = W.env;
  const js::Value* knobs = plan.get("knobs");
  if (knobs && knobs->getb("fresh_ctx", false)) {
    BootCfg cfg = g_boot;
    cfg.heap = knobs->geti("heap", 0);
    cfg.heap_max = knobs->geti("heap_max", 0);
    cfg.imports.clear();
    const js::Value* imps = knobs->get("imports");
    if (imps) for (auto& e : imps->a) cfg.imports.push_back(e->s);
    size_t prepad = knobs->geti("prepad", 0);
    if (prepad) { void* junk = malloc(prepad); if (junk) memset(junk, 1, 1); }
    std::string err;
    W.ctx = nullptr;
    if (!boot_context(cfg, &ctx, &env, &err)) {
      W.violate("boot", err);
      finish_and_exit("boot-failed");
    }
    W.ctx = ctx; W.env = env;
    W.real_sched = nullptr; W.real_sched_op = nullptr;
    install_sched_shim(ctx);
  }
  if (knobs && knobs->geti("nofile", 0) > 0) {
    struct rlimit rl;
    rl.rlim_cur = rl.rlim_max = knobs->geti("nofile", 0);
    setrlimit(RLIMIT_NOFILE, &rl);
  }
  capture_install(ctx, env);
  g_base_fds = count_open_fds();
  g_check_release = knobs && knobs->getb("check_release", false);
  g_close_fail.clear(); g_close_calls = 0;
  if (knobs && knobs->get("close_fail")) for (auto& e : knobs->get("close_fail")->a) g_close_fail.insert((uint64_t)e->i);
  g_fd_track = true;
  if (knobs && !knobs->getb("simplify", true)) sexp_global(ctx, SEXP_G_OPTIMIZATIONS) = SEXP_NULL;
  if (knobs && knobs->getb("no_tail_calls", false)) sexp_global(ctx, SEXP_G_NO_TAIL_CALLS_P) = SEXP_TRUE;
  for (sexp_heap h = sexp_context_heap(ctx); h; h = h->next) {
    W.heap_initial_total += h->size;
    if (W.poison) poison_free_chunks(h);
  }
  W.heap_total_max = W.heap_initial_total;
  W.tid(ctx);
  W.gc_armed = true;
  const js::Value* steps = plan.get("steps");
  if (steps) {
    int idx = 0;
    for (auto& sp : steps->a) {
      const js::Value& st = *sp;
      W.cur_step = idx++;
      StepResult sr;
      uint64_t a0 = W.nalloc;
      std::string op = st.gets("op", "eval");
      W.event("step %d %s", W.cur_step, op.c_str());
      if (W.interrupt_rel >= 0 && W.interrupt_rel_step == W.cur_step) W.interrupt_at_tick = (int64_t)W.ticks + W.interrupt_rel;
      if (g_destroyed && op != "fdcount") {
        sr.res = "context-destroyed"; sr.exc = true;
      } else if (op == "eval") {
        run_eval_step(ctx, env, st.gets("src"), sr);
      } else if (op == "embed") {
        const js::Value* sc = st.get("script");
        if (sc) sr.res = run_embed_script(ctx, env, *sc);
      } else if (op == "fdcount") {
        sr.res = std::to_string(count_open_fds() - g_base_fds);
      } else if (op == "destroy") {
        W.gc_armed = false;
        sexp r = sexp_destroy_context(ctx);
        sr.res = r == SEXP_TRUE ? "destroyed" : "destroy-failed";
        sr.out = "";
        W.event("step-done %d destroy", W.cur_step);
        g_results.push_back(sr);
        g_destroyed = true;
        W.ctx = nullptr;
        continue;
      } else if (op == "gc") {
        W.forcing = true; sexp_gc(ctx, NULL); W.forcing = false; W.gc_forced++;
        sr.res = "gc";
      } else {
        sr.res = "unknown-op"; sr.exc = true;
      }
      sr.allocs = W.nalloc - a0;
      W.gc_armed = false;
      if (!g_destroyed) {
        sr.out = capture_take(ctx);
        sr.err = capture_take_from(ctx, g_err);
      }
      if (sr.err.size() > 600) sr.err.resize(600);
      W.gc_armed = true;
      uint64_t h = fnv1a(FNV0, sr.out.data(), sr.out.size());
      h = fnv1a(h, sr.res.data(), sr.res.size());
      W.event("step-done %d exc=%d h=%016llx", W.cur_step, sr.exc ? 1 : 0, (unsigned long long)h);
      g_results.push_back(std::move(sr));
    }
  }
  W.gc_armed = false;
  finish_and_exit("ok");
}


// ---------------------------------------------------------------------------
// C13: independent contexts driven from different OS threads. Real pthreads, one per task, parked on
// semaphores; exactly one holds the baton. At every switch point (allocation hook, VM tick, around
// create / import / destroy) the holder asks the tape who runs next, so the interleaving is the tape's.

struct C13Task {
  int id = 0;
  pthread_t th;
  sem_t sem;
  bool done = false, started = false;
  sexp ctx = nullptr, env = nullptr;
  size_t heap = 0, heap_max = 0;
  std::vector<std::string> imports, steps;
  std::vector<StepResult> results;
  std::string error;
  char* obuf = nullptr; size_t olen = 0, oconsumed = 0; FILE* of = nullptr; sexp oport = nullptr;
  uint64_t allocs = 0, gcs = 0, ticks = 0;
  int yield_every = 1;
  bool std_ports = false;   // boot the way the documentation's embedding example does: sexp_load_standard_ports(..., no_close = 1)
  uint64_t gc_p1024 = 0; Rng rng{1};
  bool in_gc = false;
  sexp_proc1 real_sched = nullptr; sexp real_sched_op = nullptr;
};

struct StaticSeg { char* base; size_t len; std::string name; std::vector<char> snap; };

struct C13 {
  bool active = false;
  std::vector<C13Task*> tasks;
  int cur = -1;
  std::vector<int64_t> tape; size_t ti = 0;
  uint64_t switches = 0;
  uint64_t sw_hash = FNV0;
  std::vector<StaticSeg> segs;
  std::map<char*, std::pair<int, uint64_t>> static_writer;   // word address -> (task, value written)
  sem_t main_sem;
  bool check_statics = true;
};
static C13 X;

// raw byte access to other modules' data segments (their ASan global red zones are not ours to respect)
__attribute__((no_sanitize("address"), noinline)) static void raw_copy(char* dst, const char* src, size_t n) {
  for (size_t i = 0; i < n; ++i) ((volatile char*)dst)[i] = ((const volatile char*)src)[i];
}
__attribute__((no_sanitize("address"), noinline)) static uint64_t raw_word(const char* p) {
  uint64_t v = 0;
  for (int i = 7; i >= 0; --i) v = (v << 8) | (unsigned char)((const volatile char*)p)[i];
  return v;
}
__attribute__((no_sanitize("address"), noinline)) static bool raw_differs(const char* a, const char* b, size_t n) {
  for (size_t i = 0; i < n; ++i) if (((const volatile char*)a)[i] != ((const volatile char*)b)[i]) return true;
  return false;
}

static int c13_phdr_cb(struct dl_phdr_info* info, size_t, void*) {
  std::string nm = info->dlpi_name ? info->dlpi_name : "";
  bool chibi = nm.find("libchibi-scheme") != std::string::npos || nm.find("/lib/chibi/") != std::string::npos ||
               nm.find("/lib/srfi/") != std::string::npos || nm.find("/lib/scheme/") != std::string::npos;
  if (!chibi) return 0;
  for (int i = 0; i < info->dlpi_phnum; ++i) {
    const ElfW(Phdr)& ph = info->dlpi_phdr[i];
    if (ph.p_type == PT_LOAD && (ph.p_flags & PF_W)) {
      char* base = (char*)(info->dlpi_addr + ph.p_vaddr);
      bool known = false;
      for (auto& s : X.segs) if (s.base == base) known = true;
      if (!known) {
        StaticSeg sg; sg.base = base; sg.len = ph.p_memsz; sg.name = nm;
        sg.snap.resize(sg.len);
        raw_copy(sg.snap.data(), base, sg.len);
        X.segs.push_back(std::move(sg));
      }
    }
  }
  return 0;
}

static bool c13_in_any_heap(void* p, int* owner) {
  for (auto* t : X.tasks) {
    if (!t->ctx || t->done) continue;
    for (sexp_heap h = sexp_context_heap(t->ctx); h; h = h->next)
      if ((char*)p >= (char*)h->data && (char*)p < (char*)h->data + h->size) { if (owner) *owner = t->id; return true; }
  }
  return false;
}

// attribute every static word that changed since the last look to the task that just ran
static void c13_scan_statics(int ran) {
  if (!X.check_statics) return;
  dl_iterate_phdr(c13_phdr_cb, nullptr);   // picks up modules loaded meanwhile (their initial image is the snapshot)
  char msg[256];
  for (auto& sg : X.segs) {
    if (!raw_differs(sg.base, sg.snap.data(), sg.len)) continue;
    for (size_t off = 0; off + 8 <= sg.len; off += 8) {
      uint64_t now = raw_word(sg.base + off), old;
      memcpy(&old, sg.snap.data() + off, 8);
      if (now == old) continue;
      char* addr = sg.base + off;
      int owner = -1;
      if ((now & 7) == 0 && c13_in_any_heap((void*)now, &owner)) {
        snprintf(msg, sizeof msg, "static word %s+0x%zx now holds an address inside the heap of context %d (written while task %d ran)",
                 sg.name.c_str(), (size_t)(addr - sg.base), owner, ran);
        W.violate("static:holds-context-object", msg);
      }
      auto it = X.static_writer.find(addr);
      if (it != X.static_writer.end() && it->second.first != ran && it->second.second != now) {
        snprintf(msg, sizeof msg, "static word %s+0x%zx written by task %d (0x%llx) and then by task %d (0x%llx): mutable process-wide state shared between independent contexts",
                 sg.name.c_str(), (size_t)(addr - sg.base), it->second.first, (unsigned long long)it->second.second, ran, (unsigned long long)now);
        W.violate("static:shared-mutable", msg);
      }
      X.static_writer[addr] = std::make_pair(ran, now);
      W.counters["static_words_written"]++;
    }
    raw_copy(sg.snap.data(), sg.base, sg.len);
  }
}

static void c13_switch(const char* point) {
  if (!X.active || X.cur < 0) return;
  C13Task* me = X.tasks[X.cur];
  std::vector<int> runnable;
  for (auto* t : X.tasks) if (!t->done) runnable.push_back(t->id);
  if (runnable.empty()) return;
  bool exhausted = X.ti >= X.tape.size();
  int64_t pick = exhausted ? 0 : X.tape[X.ti++];
  int next;
  if (exhausted) next = me->done ? runnable[0] : me->id;   // tape exhausted: run to completion in order
  else next = runnable[(size_t)(pick < 0 ? -pick : pick) % runnable.size()];
  if (next == me->id && !me->done) return;
  c13_scan_statics(me->id);
  X.switches++;
  unsigned char rec[2] = {(unsigned char)me->id, (unsigned char)next};
  X.sw_hash = fnv1a(X.sw_hash, rec, 2);
  W.event("baton %d->%d at %s", me->id, next, point);
  W.counters[std::string("switch_at:") + point]++;
  X.cur = next;
  sem_post(&X.tasks[next]->sem);
  if (!me->done) {
    sem_wait(&me->sem);
  }
}

static C13Task* c13_task_of(sexp ctx) {
  for (auto* t : X.tasks) if (t->ctx && sexp_context_heap(t->ctx) == sexp_context_heap(ctx)) return t;
  return nullptr;
}

static void c13_hook_alloc(sexp ctx, size_t size) {
  (void)size;
  if (!X.active || X.cur < 0) return;
  C13Task* t = X.tasks[X.cur];
  if (t->in_gc) return;
  t->allocs++;
  if (t->ctx && t->gc_p1024 && sexp_context_heap(ctx) == sexp_context_heap(t->ctx) && (t->rng.next() & 1023) < t->gc_p1024 && t->gcs < 200) {
    t->gcs++;
    sexp_gc(ctx, NULL);
  }
  if (t->yield_every && (t->allocs % t->yield_every) == 0) c13_switch("alloc");
}
static void c13_hook_gc(sexp ctx, int phase) {
  if (!X.active || X.cur < 0) return;
  C13Task* t = X.tasks[X.cur];
  if (phase == 0) { t->in_gc = true; c13_switch("gc-start"); return; }
  if (phase == 1) { c13_switch("gc-marked"); return; }
  if (phase == 2) {
    C13Task* owner = c13_task_of(ctx);
    if (owner) {
      size_t before = W.violations.size();
      walk_heap(ctx, 2, true);
      W.heapchecks++;
      if (W.violations.size() > before) W.event("heap check failed in context of task %d", owner->id);
    }
    if (W.poison)
      for (sexp_heap h = sexp_context_heap(ctx); h; h = h->next) poison_free_chunks(h);
    t->in_gc = false;
  }
}
static sexp c13_scheduler(sexp ctx, sexp self, sexp_sint_t n, sexp root_thread) {
  (void)self;
  W.ticks++;
  if (W.tick_budget && W.ticks > W.tick_budget) { W.violate("budget", "tick budget exceeded"); finish_and_exit("budget"); }
  sexp res = ctx;
  if (X.active && X.cur >= 0) {
    C13Task* t = X.tasks[X.cur];
    t->ticks++;
    c13_switch("tick");
    // green threads inside a context keep working: the context's own SRFI-18 scheduler decides which of ITS threads runs
    if (t->real_sched) res = ((sexp_proc2)t->real_sched)(ctx, t->real_sched_op, n, root_thread);
  }
  if (sexp_contextp(res) && sexp_context_refuel(res) > 0) sexp_context_refuel(res) = W.default_quantum;
  return res;
}

static void* c13_task_main(void* arg) {
  C13Task* t = (C13Task*)arg;
  sem_wait(&t->sem);
  t->started = true;
  BootCfg cfg;
  cfg.heap = t->heap; cfg.heap_max = t->heap_max; cfg.imports = t->imports;
  c13_switch("before-create");
  bool host_fd_open[3];
  for (int fd = 0; fd <= 2; ++fd) host_fd_open[fd] = fcntl(fd, F_GETFD) != -1;
  std::string err;
  sexp ctx = nullptr, env = nullptr;
  // boot step by step so that switches can land between create / standard env / each import
  ctx = sexp_make_eval_context(NULL, NULL, NULL, cfg.heap, cfg.heap_max);
  if (!ctx || sexp_exceptionp(ctx)) { t->error = "cannot create context"; }
  else {
    t->ctx = ctx;
    c13_switch("after-create");
    sexp_gc_var3(tmp, e, res);
    sexp_gc_preserve3(ctx, tmp, e, res);
    e = sexp_load_standard_env(ctx, sexp_context_env(ctx), SEXP_SEVEN);
    if (sexp_exceptionp(e)) t->error = "load_standard_env: " + exception_to_string(ctx, e);
    else {
      c13_switch("after-stdenv");
      e = sexp_eval_string(ctx, "(mutable-environment '(scheme small))", -1, sexp_global(ctx, SEXP_G_META_ENV));
      if (sexp_exceptionp(e)) t->error = "default env: " + exception_to_string(ctx, e);
      else {
        tmp = sexp_intern(ctx, "repl-import", -1);
        res = sexp_env_ref(ctx, sexp_global(ctx, SEXP_G_META_ENV), tmp, SEXP_VOID);
        tmp = sexp_intern(ctx, "import", -1);
        sexp_env_define(ctx, e, tmp, res);
        if (t->std_ports) sexp_load_standard_ports(ctx, e, stdin, stdout, stderr, 1);
        t->of = open_memstream(&t->obuf, &t->olen);
        res = sexp_make_env(ctx);
        sexp_env_parent(res) = e;
        sexp_context_env(ctx) = res;
        sexp_set_parameter(ctx, sexp_global(ctx, SEXP_G_META_ENV), sexp_global(ctx, SEXP_G_INTERACTION_ENV_SYMBOL), res);
        env = res;
        t->env = env;
        tmp = sexp_make_output_port(ctx, t->of, SEXP_FALSE);
        sexp_port_no_closep(tmp) = 1;
        sexp_set_parameter(ctx, env, sexp_global(ctx, SEXP_G_CUR_OUT_SYMBOL), tmp);
        sexp_set_parameter(ctx, env, sexp_global(ctx, SEXP_G_CUR_ERR_SYMBOL), tmp);
        sexp_preserve_object(ctx, tmp);
        t->oport = tmp;
        for (auto& imp : t->imports) {
          c13_switch("before-import");
          std::string form = "(import " + imp + ")";
          tmp = sexp_eval_string(ctx, form.c_str(), -1, env);
          if (sexp_exceptionp(tmp)) { t->error = "import " + imp + ": " + exception_to_string(ctx, tmp); break; }
          c13_switch("after-import");
        }
        // tick source for this context (the real SRFI-18 scheduler, if loaded, is replaced: green threads are not the subject here)
        tmp = sexp_global(ctx, SEXP_G_THREADS_SCHEDULER);
        if (tmp && sexp_opcodep(tmp) && sexp_opcode_func(tmp)) {
          t->real_sched = sexp_opcode_func(tmp);
          t->real_sched_op = tmp;
          sexp_preserve_object(ctx, tmp);
        }
        tmp = sexp_make_foreign(ctx, "scheduler", 1, 0, "c13_scheduler", (sexp_proc1)c13_scheduler, SEXP_FALSE);
        sexp_global(ctx, SEXP_G_THREADS_SCHEDULER) = tmp;
      }
    }
    sexp_gc_release3(ctx);
    if (t->error.empty()) {
      for (auto& src : t->steps) {
        StepResult sr;
        run_eval_step(ctx, env, src, sr);
        if (t->oport) sexp_flush(ctx, t->oport);
        fflush(t->of);
        sr.out.assign(t->obuf + t->oconsumed, t->olen - t->oconsumed);
        t->oconsumed = t->olen;
        t->results.push_back(std::move(sr));
        c13_switch("between-steps");
      }
    }
    c13_switch("before-destroy");
    t->in_gc = true;   // no forced collections / switches from inside destroy's own sweep
    sexp_destroy_context(ctx);
    t->in_gc = false;
    t->ctx = nullptr;
    // the host's own streams were lent to the context with no_close = 1: whatever the context did with them, they are still the host's
    for (int fd = 0; fd <= 2; ++fd)
      if (host_fd_open[fd] && fcntl(fd, F_GETFD) == -1) {
        char msg[160];
        snprintf(msg, sizeof msg, "file descriptor %d of the host process is closed after task %d destroyed its context", fd, t->id);
        W.violate("embed:host-stream-closed", msg);
      }
  }
  t->done = true;
  c13_scan_statics(t->id);
  // hand the baton to somebody else, or wake main when everybody is done
  bool any = false;
  for (auto* o : X.tasks) if (!o->done) any = true;
  if (any) c13_switch("after-destroy");
  else sem_post(&X.main_sem);
  // a finished task never exits its thread: thread teardown (arena detach, stack caching) would run concurrently with the
  // next baton holder and make later addresses depend on real timing. It parks until the process exits.
  for (;;) sem_wait(&t->sem);
  return nullptr;
}

static void run_c13(const js::Value& plan) {
  const js::Value* cfg = plan.get("c13");
  X.tape = cfg->getiv("tape");
  X.check_statics = cfg->getb("check_statics", true);
  W.default_quantum = cfg->geti("quantum", 200);
  W.tick_budget = cfg->geti("tick_budget", 0);
  W.ev_full = plan.getb("trace", false);
  W.poison = cfg->getb("poison", true);
  const js::Value* tasks = cfg->get("tasks");
  int id = 0;
  for (auto& tp : tasks->a) {
    C13Task* t = new C13Task();
    t->id = id++;
    sem_init(&t->sem, 0, 0);
    t->heap = tp->geti("heap", 0);
    t->heap_max = tp->geti("heap_max", 0);
    t->yield_every = (int)tp->geti("yield_every", 50);
    t->std_ports = tp->getb("std_ports", false);
    t->gc_p1024 = tp->geti("gc_p1024", 0);
    t->rng = Rng(tp->geti("gc_seed", 1));
    const js::Value* im = tp->get("imports");
    if (im) for (auto& e : im->a) t->imports.push_back(e->s);
    const js::Value* st = tp->get("steps");
    if (st) for (auto& e : st->a) t->steps.push_back(e->s);
    X.tasks.push_back(t);
  }
  sem_init(&X.main_sem, 0, 0);
  sexp_verif_hooks.alloc = c13_hook_alloc;
  sexp_verif_hooks.gc = c13_hook_gc;
  sexp_verif_hooks.took = hook_took;
  sexp_verif_hooks.done = hook_done;
  sexp_verif_hooks.heap = hook_heap;
  W.gc_armed = true;     // arms the poison checks in hook_took
  W.ctx = nullptr;
  dl_iterate_phdr(c13_phdr_cb, nullptr);
  for (auto* t : X.tasks) {
    pthread_attr_t at;
    pthread_attr_init(&at);
    pthread_attr_setstacksize(&at, 16 << 20);
    pthread_create(&t->th, &at, c13_task_main, t);
  }
  X.active = true;
  X.cur = 0;
  sem_post(&X.tasks[0]->sem);
  sem_wait(&X.main_sem);
  X.active = false;
  // results: steps of all tasks, flattened with a task marker
  for (auto* t : X.tasks) {
    StepResult hdr;
    hdr.res = "task " + std::to_string(t->id) + (t->error.empty() ? "" : (" error: " + t->error));
    hdr.exc = !t->error.empty();
    hdr.allocs = t->allocs;
    g_results.push_back(hdr);
    for (auto& r : t->results) g_results.push_back(r);
  }
  W.switches = X.switches;
  W.sw_hash = X.sw_hash;
  W.gc_armed = false;
  finish_and_exit("ok");
}

// ---------------------------------------------------------------------------
// Server: read plans, fork a child per plan, relay the result

static std::string read_all_fd(int fd, size_t cap) {
  std::string s;
  char buf[4096];
  lseek(fd, 0, SEEK_SET);
  for (;;) {
    ssize_t k = read(fd, buf, sizeof buf);
    if (k <= 0) break;
    s.append(buf, k);
    if (s.size() > cap) break;
  }
  if (s.size() > cap) s = s.substr(s.size() - cap);
  return s;
}

// The serving parent must not change its own memory image between plans (a later child would
// otherwise start from a different malloc state and every address-dependent decision would differ):
// it uses only static buffers and raw read/write; JSON is parsed in the child.
static char g_planbuf[1 << 26];
static size_t g_planlen = 0;
static char g_relay[1 << 16];
static char g_small[16384];

static void raw_write_all(int fd, const char* p, size_t n) {
  while (n) {
    ssize_t k = write(fd, p, n);
    if (k < 0) { if (errno == EINTR) continue; return; }
    p += k; n -= (size_t)k;
  }
}

static size_t json_escape_into(char* out, size_t cap, const char* in, size_t n) {
  size_t o = 0;
  for (size_t i = 0; i < n && o + 8 < cap; ++i) {
    unsigned char c = (unsigned char)in[i];
    if (c == '"' || c == '\\') { out[o++] = '\\'; out[o++] = (char)c; }
    else if (c == '\n') { out[o++] = '\\'; out[o++] = 'n'; }
    else if (c < 0x20 || c >= 0x7f) { o += (size_t)snprintf(out + o, cap - o, "\\u%04x", c); }
    else out[o++] = (char)c;
  }
  return o;
}

static void child_main(int resfd, int errfd) {
  close(0);
  open("/dev/null", O_RDONLY);
  dup2(errfd, 2);
  g_resfd = resfd;
  js::Ptr plan;
  try {
    plan = js::parse(std::string(g_planbuf, g_planlen));
  } catch (std::exception& e) {
    char msg[256];
    int n = snprintf(msg, sizeof msg, "{\"id\":-1,\"status\":\"bad-plan\",\"error\":\"%s\"}\n", e.what());
    raw_write_all(resfd, msg, (size_t)n);
    _exit(0);
  }
  run_plan(*plan);
  _exit(0);
}

static void serve_one(int real_timeout_ms) {
  int pfd[2];
  if (pipe(pfd) != 0) { perror("pipe"); exit(3); }
  int errfd = memfd_create("chibisim-stderr", 0);
  pid_t pid = fork();
  if (pid < 0) { perror("fork"); exit(3); }
  if (pid == 0) {
    close(pfd[0]);
    child_main(pfd[1], errfd);
  }
  close(pfd[1]);
  // the child's result line is relayed only if it ends normally; it is held in a private
  // mapping that is unmapped again afterwards (no effect on the malloc state)
  size_t cap = 1 << 26, len = 0;
  char* hold = (char*)mmap(nullptr, cap, PROT_READ | PROT_WRITE, MAP_PRIVATE | MAP_ANONYMOUS, -1, 0);
  int waited = 0;
  bool timed_out = false;
  for (;;) {
    struct pollfd p = {pfd[0], POLLIN, 0};
    int r = poll(&p, 1, 100);
    if (r > 0) {
      ssize_t k = read(pfd[0], g_relay, sizeof g_relay);
      if (k > 0) { if (len + (size_t)k <= cap) { memcpy(hold + len, g_relay, (size_t)k); len += (size_t)k; } continue; }
      if (k == 0) break;
      if (errno == EINTR) continue;
      break;
    } else if (r == 0) {
      // the backstop is measured in CPU time consumed by the child (all its threads), so that a machine loaded by other checks
      // cannot turn a slow case into a "hang"; wall time only bounds a child that is blocked without consuming CPU
      waited += 100;
      long cpu_ms = -1;
      clockid_t cid;
      struct timespec cts;
      if (clock_getcpuclockid(pid, &cid) == 0 && syscall(SYS_clock_gettime, cid, &cts) == 0) cpu_ms = (long)cts.tv_sec * 1000 + cts.tv_nsec / 1000000;
      if ((cpu_ms >= 0 ? cpu_ms >= real_timeout_ms : waited >= real_timeout_ms) || waited >= 8 * real_timeout_ms) { timed_out = true; kill(pid, SIGKILL); break; }
    } else if (errno != EINTR) {
      break;
    }
  }
  close(pfd[0]);
  int status = 0;
  while (waitpid(pid, &status, 0) < 0 && errno == EINTR) {}
  bool have_line = len > 0 && len < cap && hold[len - 1] == '\n';
  if (have_line && !timed_out && WIFEXITED(status) && WEXITSTATUS(status) == 0) {
    raw_write_all(1, hold, len);
  } else {
    const char* st = "unknown";
    char stbuf[64];
    if (timed_out) st = "timeout";
    else if (WIFSIGNALED(status)) { snprintf(stbuf, sizeof stbuf, "crash:%s", strsignal(WTERMSIG(status))); st = stbuf; }
    else if (WIFEXITED(status) && WEXITSTATUS(status) == 77) st = "asan";
    else if (WIFEXITED(status)) { snprintf(stbuf, sizeof stbuf, "exit:%d", WEXITSTATUS(status)); st = stbuf; }
    // stderr tail
    off_t sz = lseek(errfd, 0, SEEK_END);
    off_t from = sz > 6000 ? sz - 6000 : 0;
    lseek(errfd, from, SEEK_SET);
    static char errraw[6001];
    ssize_t got = read(errfd, errraw, 6000);
    if (got < 0) got = 0;
    size_t o = (size_t)snprintf(g_small, sizeof g_small, "{\"id\":0,\"status\":\"%s\",\"stderr\":\"", st);
    static char esc[8 * 6001];
    size_t e = json_escape_into(esc, sizeof esc, errraw, (size_t)got);
    raw_write_all(1, g_small, o);
    raw_write_all(1, esc, e);
    raw_write_all(1, "\"}\n", 3);
  }
  munmap(hold, cap);
  close(errfd);
}

// reads one line (a plan) from fd 0 into the static plan buffer; returns false on EOF
static bool read_plan_line() {
  // the driver sends one plan and waits for its result, so nothing follows the newline
  g_planlen = 0;
  for (;;) {
    if (g_planlen >= sizeof g_planbuf) return false;
    ssize_t k = read(0, g_planbuf + g_planlen, sizeof g_planbuf - g_planlen);
    if (k == 0) return false;
    if (k < 0) { if (errno == EINTR) continue; return false; }
    g_planlen += (size_t)k;
    if (g_planbuf[g_planlen - 1] == '\n') { g_planlen--; return true; }
  }
}

static void aslr_off_reexec(int argc, char** argv) {
  if (getenv("CHIBISIM_REEXEC")) return;
  personality(ADDR_NO_RANDOMIZE);
  // fixed environment: nothing of the caller's leaks into the run
  std::string modpath = "CHIBI_MODULE_PATH=";
  for (int i = 1; i + 1 < argc; ++i)
    if (!strcmp(argv[i], "--modpath")) modpath += argv[i + 1];
  static char e0[] = "CHIBISIM_REEXEC=1";
  static char e1[] = "CHIBI_IGNORE_SYSTEM_PATH=1";
  static char e2[] = "LANG=C";
  static char e3[] = "TZ=UTC";
  char* envp[] = {e0, e1, e2, e3, strdup(modpath.c_str()), nullptr};
  execve("/proc/self/exe", argv, envp);
  perror("execve");
  exit(3);
}

int main(int argc, char** argv) {
  aslr_off_reexec(argc, argv);
  int timeout_ms = 60000;
  bool serve = false;
  std::string one_plan;
  for (int i = 1; i < argc; ++i) {
    std::string a = argv[i];
    if (a == "--serve") serve = true;
    else if (a == "--modpath" && i + 1 < argc) ++i;
    else if (a == "--import" && i + 1 < argc) g_boot.imports.push_back(argv[++i]);
    else if (a == "--timeout-ms" && i + 1 < argc) timeout_ms = atoi(argv[++i]);
    else if (a == "--heap" && i + 1 < argc) g_boot.heap = strtoull(argv[++i], nullptr, 10);
    else if (a == "--plan" && i + 1 < argc) one_plan = argv[++i];
    else if (a == "--no-template") g_boot.libdir = "-";
    else { fprintf(stderr, "chibisim: unknown argument %s\n", a.c_str()); return 3; }
  }
  setvbuf(stdout, nullptr, _IOFBF, 1 << 16);
  signal(SIGPIPE, SIG_IGN);
  sexp_scheme_init();
  install_gc_hooks();
  W.poison = false;  // template boot runs unpoisoned; the child poisons at run start
  g_clock_on = true;
  if (g_boot.libdir != "-") {
    std::string err;
    if (!boot_context(g_boot, &W.ctx, &W.env, &err)) {
      fprintf(stderr, "chibisim: template boot failed: %s\n", err.c_str());
      return 3;
    }
    install_sched_shim(W.ctx);
  }
  W.poison = true;
  if (!one_plan.empty()) {
    int pf = open(one_plan.c_str(), O_RDONLY);
    if (pf < 0) { perror("plan"); return 3; }
    g_planlen = 0;
    ssize_t k;
    while ((k = read(pf, g_planbuf + g_planlen, sizeof g_planbuf - g_planlen)) > 0) g_planlen += (size_t)k;
    close(pf);
    serve_one(timeout_ms);
    return 0;
  }
  if (serve) {
    raw_write_all(1, "{\"ready\":true}\n", 15);
    while (read_plan_line()) {
      if (g_planlen == 4 && !memcmp(g_planbuf, "quit", 4)) break;
      serve_one(timeout_ms);
    }
  }
  return 0;
}
