// Minimal JSON reader/writer for chibisim plans and results (no dependencies).
#pragma once
#include <cstdint>
#include <cstdio>
#include <cstdlib>
#include <cstring>
#include <map>
#include <memory>
#include <stdexcept>
#include <string>
#include <vector>

namespace js {

struct Value;
using Ptr = std::shared_ptr<Value>;

struct Value {
  enum Kind { Null, Bool, Int, Dbl, Str, Arr, Obj } kind = Null;
  bool b = false;
  int64_t i = 0;
  double d = 0;
  std::string s;
  std::vector<Ptr> a;
  std::vector<std::pair<std::string, Ptr>> o;  // insertion ordered

  const Value* get(const char* key) const {
    if (kind != Obj) return nullptr;
    for (auto& kv : o)
      if (kv.first == key) return kv.second.get();
    return nullptr;
  }
  int64_t geti(const char* key, int64_t dflt = 0) const {
    const Value* v = get(key);
    if (!v) return dflt;
    if (v->kind == Int) return v->i;
    if (v->kind == Dbl) return (int64_t)v->d;
    if (v->kind == Bool) return v->b ? 1 : 0;
    return dflt;
  }
  bool getb(const char* key, bool dflt = false) const {
    const Value* v = get(key);
    if (!v) return dflt;
    if (v->kind == Bool) return v->b;
    if (v->kind == Int) return v->i != 0;
    return dflt;
  }
  std::string gets(const char* key, const std::string& dflt = "") const {
    const Value* v = get(key);
    if (!v || v->kind != Str) return dflt;
    return v->s;
  }
  std::vector<int64_t> getiv(const char* key) const {
    std::vector<int64_t> r;
    const Value* v = get(key);
    if (!v || v->kind != Arr) return r;
    for (auto& e : v->a) r.push_back(e->kind == Int ? e->i : (int64_t)e->d);
    return r;
  }
};

struct Parser {
  const char* p;
  const char* end;
  explicit Parser(const std::string& s) : p(s.data()), end(s.data() + s.size()) {}
  [[noreturn]] void fail(const char* msg) { throw std::runtime_error(std::string("json: ") + msg); }
  void ws() {
    while (p < end && (*p == ' ' || *p == '\n' || *p == '\t' || *p == '\r')) ++p;
  }
  static void utf8(std::string& out, uint32_t c) {
    if (c < 0x80) out += (char)c;
    else if (c < 0x800) { out += (char)(0xC0 | (c >> 6)); out += (char)(0x80 | (c & 0x3F)); }
    else if (c < 0x10000) { out += (char)(0xE0 | (c >> 12)); out += (char)(0x80 | ((c >> 6) & 0x3F)); out += (char)(0x80 | (c & 0x3F)); }
    else { out += (char)(0xF0 | (c >> 18)); out += (char)(0x80 | ((c >> 12) & 0x3F)); out += (char)(0x80 | ((c >> 6) & 0x3F)); out += (char)(0x80 | (c & 0x3F)); }
  }
  uint32_t hex4() {
    if (end - p < 4) fail("short \\u");
    uint32_t v = 0;
    for (int k = 0; k < 4; ++k) {
      char c = *p++;
      v <<= 4;
      if (c >= '0' && c <= '9') v |= c - '0';
      else if (c >= 'a' && c <= 'f') v |= c - 'a' + 10;
      else if (c >= 'A' && c <= 'F') v |= c - 'A' + 10;
      else fail("bad hex");
    }
    return v;
  }
  std::string str() {
    std::string out;
    if (*p != '"') fail("expected string");
    ++p;
    while (p < end && *p != '"') {
      if (*p == '\\') {
        ++p;
        if (p >= end) fail("bad escape");
        char c = *p++;
        switch (c) {
          case 'n': out += '\n'; break;
          case 't': out += '\t'; break;
          case 'r': out += '\r'; break;
          case 'b': out += '\b'; break;
          case 'f': out += '\f'; break;
          case '/': out += '/'; break;
          case '\\': out += '\\'; break;
          case '"': out += '"'; break;
          case 'u': {
            uint32_t v = hex4();
            if (v >= 0xD800 && v < 0xDC00 && end - p >= 6 && p[0] == '\\' && p[1] == 'u') {
              p += 2;
              uint32_t lo = hex4();
              v = 0x10000 + ((v - 0xD800) << 10) + (lo - 0xDC00);
            }
            utf8(out, v);
            break;
          }
          default: fail("bad escape char");
        }
      } else {
        out += *p++;
      }
    }
    if (p >= end) fail("unterminated string");
    ++p;
    return out;
  }
  Ptr value() {
    ws();
    if (p >= end) fail("eof");
    auto v = std::make_shared<Value>();
    char c = *p;
    if (c == '{') {
      v->kind = Value::Obj;
      ++p; ws();
      if (*p == '}') { ++p; return v; }
      for (;;) {
        ws();
        std::string k = str();
        ws();
        if (*p != ':') fail("expected :");
        ++p;
        Ptr e = value();
        v->o.emplace_back(std::move(k), e);
        ws();
        if (*p == ',') { ++p; continue; }
        if (*p == '}') { ++p; break; }
        fail("expected , or }");
      }
    } else if (c == '[') {
      v->kind = Value::Arr;
      ++p; ws();
      if (*p == ']') { ++p; return v; }
      for (;;) {
        v->a.push_back(value());
        ws();
        if (*p == ',') { ++p; continue; }
        if (*p == ']') { ++p; break; }
        fail("expected , or ]");
      }
    } else if (c == '"') {
      v->kind = Value::Str;
      v->s = str();
    } else if (c == 't' && end - p >= 4 && !strncmp(p, "true", 4)) {
      v->kind = Value::Bool; v->b = true; p += 4;
    } else if (c == 'f' && end - p >= 5 && !strncmp(p, "false", 5)) {
      v->kind = Value::Bool; v->b = false; p += 5;
    } else if (c == 'n' && end - p >= 4 && !strncmp(p, "null", 4)) {
      p += 4;
    } else {
      const char* s = p;
      bool isd = false;
      if (*p == '-') ++p;
      while (p < end && ((*p >= '0' && *p <= '9') || *p == '.' || *p == 'e' || *p == 'E' || *p == '+' || *p == '-')) {
        if (*p == '.' || *p == 'e' || *p == 'E') isd = true;
        ++p;
      }
      if (p == s) fail("unexpected char");
      std::string num(s, p);
      if (isd) { v->kind = Value::Dbl; v->d = strtod(num.c_str(), nullptr); }
      else { v->kind = Value::Int; v->i = strtoll(num.c_str(), nullptr, 10); }
    }
    return v;
  }
};

inline Ptr parse(const std::string& s) {
  Parser ps(s);
  return ps.value();
}

// Bytes are written latin-1 style: anything outside printable ASCII as \u00XX.
inline void quote(std::string& out, const std::string& s) {
  out += '"';
  char buf[8];
  for (unsigned char c : s) {
    if (c == '"') out += "\\\"";
    else if (c == '\\') out += "\\\\";
    else if (c == '\n') out += "\\n";
    else if (c < 0x20 || c >= 0x7f) { snprintf(buf, sizeof buf, "\\u%04x", c); out += buf; }
    else out += (char)c;
  }
  out += '"';
}

// Tiny streaming writer.
struct Writer {
  std::string out;
  std::vector<bool> first;
  void sep() {
    if (!first.empty()) {
      if (!first.back()) out += ',';
      first.back() = false;
    }
  }
  void key(const char* k) { sep(); quote(out, k); out += ':'; if (!first.empty()) first.back() = true; }
  void begin_obj() { sep(); out += '{'; first.push_back(true); }
  void end_obj() { first.pop_back(); out += '}'; if (!first.empty()) first.back() = false; }
  void begin_arr() { sep(); out += '['; first.push_back(true); }
  void end_arr() { first.pop_back(); out += ']'; if (!first.empty()) first.back() = false; }
  void str(const std::string& s) { sep(); quote(out, s); }
  void num(int64_t v) { sep(); out += std::to_string(v); }
  void unum(uint64_t v) { sep(); out += std::to_string(v); }
  void boolean(bool b) { sep(); out += b ? "true" : "false"; }
  void kv(const char* k, const std::string& s) { key(k); str(s); }
  void kv(const char* k, const char* s) { key(k); str(s); }
  void kv(const char* k, int64_t v) { key(k); num(v); }
  void kv(const char* k, uint64_t v) { key(k); unum(v); }
  void kv(const char* k, int v) { key(k); num(v); }
  void kv(const char* k, bool b) { key(k); boolean(b); }
};

}  // namespace js
