#!/usr/bin/env python3
"""tools/seedregress.py [seed-id ...]  -- regression over the kept seeded changes.

For every /verif/seeded/<id>/ (or the ids given): apply patch.diff to a scratch worktree of /repo's HEAD (outside /repo and /verif),
run the quick check of the property that caught it (VERIF_REPO / VERIF_BUILD point the driver at the scratch tree, builds are
incremental), expect exit 1 with a VIOLATION line, undo. Writes /verif/seeded/REGRESSION.md. The scratch worktree and its build
output are removed at the end."""
import glob
import json
import os
import shutil
import subprocess
import sys
import time

WT = "/tmp/regress-wt"
BD = "/tmp/regress-build"


def sh(cmd, timeout=3600, env=None):
    p = subprocess.run(cmd, shell=True, stdout=subprocess.PIPE, stderr=subprocess.STDOUT, timeout=timeout, env=env)
    return p.returncode, p.stdout.decode("utf-8", "replace")


ids = sys.argv[1:] or sorted(os.path.basename(os.path.dirname(m)) for m in glob.glob("/verif/seeded/*/meta.json"))
sh("git -C /repo worktree remove --force %s; git -C /repo worktree prune; rm -rf %s" % (WT, WT))
rc, o = sh("git -C /repo worktree add --detach %s HEAD" % WT)
assert rc == 0, o
rows = []
env = dict(os.environ, VERIF_REPO=WT, VERIF_BUILD=BD)
for sid in ids:
    d = "/verif/seeded/" + sid
    meta = json.load(open(d + "/meta.json"))
    props = meta.get("caught_by") or [meta["property"]]
    prop = props[0]
    rc, o = sh("git -C %s reset -q --hard && git -C %s apply %s/patch.diff" % (WT, WT, d))
    how = "applied"
    if rc != 0:
        rc, o = sh("git -C %s reset -q --hard && git -C %s apply --3way %s/patch.diff" % (WT, WT, d))
        how = "applied (3-way)"
        if rc != 0:
            rc2, o2 = sh("cd %s && git reset -q --hard && patch -p1 --fuzz=3 < %s/patch.diff" % (WT, d))
            how = "applied (patch --fuzz)"
            if rc2 != 0:
                sh("git -C %s reset -q --hard ; git -C %s clean -fdq" % (WT, WT))
                rows.append((sid, prop, "patch no longer applies to HEAD (the code it touched was changed by a later fix)", "", 0))
                print(sid, "does not apply", o[-300:], o2[-300:])
                continue
    t0 = time.time()
    rc, o = sh("cd /verif && python3 verif.py check %s" % prop, timeout=5400, env=env)
    lines = [l for l in o.splitlines() if l.startswith("VIOLATION") or l.startswith("  class=") or l.startswith("CHECK-BROKEN")]
    cls = ""
    for l in lines:
        if "class=" in l:
            cls = l.split("class=")[1].split(" ")[0]
            break
    res = "caught (%s)" % cls if rc == 1 else ("CHECK-BROKEN" if rc == 2 else "NOT caught")
    rows.append((sid, prop, how, res, round(time.time() - t0)))
    print(sid, prop, how, res, round(time.time() - t0), flush=True)
    sh("git -C %s reset -q --hard ; git -C %s clean -fdq -e _build" % (WT, WT))
head = sh("git -C /repo log --format=%h -1")[1].strip()
vhead = sh("git -C /verif log --format=%h -1")[1].strip()
# a partial run (ids given) updates the rows of an existing table
if sys.argv[1:] and os.path.exists("/verif/seeded/REGRESSION.md"):
    new = {r[0]: r for r in rows}
    merged = []
    for l in open("/verif/seeded/REGRESSION.md"):
        if l.startswith("| C"):
            cells = [c.strip() for c in l.strip().strip("|").split("|")]
            if cells[0] in new:
                merged.append(new.pop(cells[0]))
            else:
                merged.append(tuple(cells))
    rows = merged + list(new.values())
with open("/verif/seeded/REGRESSION.md", "w") as f:
    f.write("# Seeded changes re-run against the final checks\n\n/repo HEAD %s, /verif %s, quick tier, default budget, VERIF_SEED=1. Each patch is applied to a scratch worktree of /repo's HEAD, "
            "the property's check is pointed at it, and the patch is undone.\n\n| seed | check | patch | result | wall s |\n|---|---|---|---|---|\n" % (head, vhead))
    for r in rows:
        f.write("| %s | %s | %s | %s | %s |\n" % r)
sh("git -C /repo worktree remove --force %s; git -C /repo worktree prune; rm -rf %s %s" % (WT, WT, BD))
# the checks rewrote /verif/evidence/<id>.json from runs against the patched scratch trees: put back the committed evidence (runs against /repo)
sh("git -C /verif checkout -- evidence/")
print("done")
