#!/usr/bin/env python3
"""tools/keepseed.py <seed-out-dir> <seed-id> [note]  -- keep a confirmed seeded change under /verif/seeded/<id>/ and rebuild INDEX.md"""
import glob
import json
import os
import shutil
import sys

out, sid = sys.argv[1], sys.argv[2]
note = sys.argv[3] if len(sys.argv) > 3 else ""
dst = os.path.join("/verif/seeded", sid)
os.makedirs(dst, exist_ok=True)
for f in os.listdir(out):
    if f in ("patch.diff", "meta.json") or f.startswith("demo"):
        if os.path.isfile(os.path.join(out, f)) and os.path.getsize(os.path.join(out, f)) < 400000:
            shutil.copy(os.path.join(out, f), os.path.join(dst, f))
meta = json.load(open(os.path.join(out, "meta.json")))
ev = json.load(open(os.path.join(out, "eval.json")))
meta["confirmed"] = {"suite_passes_with_change": ev["ctest_modified"], "demo_rc_with_change": ev["demo_modified_rc"], "demo_rc_without_change": ev["demo_stock_rc"],
                     "how": "stock-flag build in the seeder's scratch worktree: ctest -j8; demonstration there and on /repo's build"}
meta["checks_run"] = ev["checks"]
caught = [p for p, c in ev["checks"].items() if c["exit"] == 1]
meta["caught_by"] = caught
if note:
    meta["note"] = note
json.dump(meta, open(os.path.join(dst, "meta.json"), "w"), indent=1)
# index
rows = []
for m in sorted(glob.glob("/verif/seeded/*/meta.json")):
    d = json.load(open(m))
    sid2 = os.path.basename(os.path.dirname(m))
    cb = d.get("caught_by", [])
    cls = ""
    for p, c in d.get("checks_run", {}).items():
        for l in c.get("lines", []):
            if "class=" in l:
                cls = l.split("class=")[1].split(" ")[0]
                break
        if cls:
            break
    rows.append("| %s | %s | %s | %s | %s | %s |" % (sid2, d.get("property"), d.get("summary", "")[:160].replace("|", "/"), d.get("needs", "")[:140].replace("|", "/"),
                                                   ("caught by " + ",".join(cb) + " (" + cls + ")") if cb else "NOT caught", d.get("note", "")[:200].replace("|", "/")))
open("/verif/seeded/INDEX.md", "w").write("# Seeded changes\n\nEach directory: patch.diff, the seeder's demonstration, meta.json (what it breaks, what it needs, what was run).\n\n"
    "| id | property | change | needs | result (quick tier unless noted) | note |\n|---|---|---|---|---|---|\n" + "\n".join(rows) + "\n")
print("kept", sid, "caught_by", caught)
