#!/usr/bin/env python3
"""Evaluate one seeded change: tools/seedeval.py <seed-out-dir> <worktree> <property> [--tier quick|thorough] [--seconds N]
Confirms (in the seeder's scratch worktree, which has the change applied and built with stock flags): the suite passes, the
demonstration fails there and passes on /repo's stock build; then runs the property's check against the worktree
(VERIF_REPO / VERIF_BUILD point the driver at it, /repo and /verif/build are not touched) and records the result."""
import json
import os
import shutil
import subprocess
import sys
import time

out, wt, prop = sys.argv[1], sys.argv[2], sys.argv[3]
tier = "quick"
seconds = None
extra_props = []
for i, a in enumerate(sys.argv):
    if a == "--tier":
        tier = sys.argv[i + 1]
    if a == "--seconds":
        seconds = sys.argv[i + 1]
    if a == "--also":
        extra_props = sys.argv[i + 1].split(",")
meta = json.load(open(os.path.join(out, "meta.json")))
res = {"property": prop, "seed_dir": out}


def sh(cmd, timeout=1800, env=None):
    p = subprocess.run(cmd, shell=True, stdout=subprocess.PIPE, stderr=subprocess.STDOUT, timeout=timeout, env=env)
    return p.returncode, p.stdout.decode("utf-8", "replace")

# 0. make sure the worktree holds exactly the delivered patch (the seeders share one git stash and have swapped changes before)
rc, cur = sh("git -C %s diff" % wt)
want = open(os.path.join(out, "patch.diff")).read()
norm = lambda t: [l for l in t.splitlines() if (l.startswith("+") or l.startswith("-")) and not l.startswith("+++") and not l.startswith("---")]
if norm(cur) != norm(want):
    sh("git -C %s checkout -- . && git -C %s apply %s" % (wt, wt, os.path.join(out, "patch.diff")))
    res["worktree_reset_to_patch"] = True
# 1. suite on the modified build
rc, o = sh("cmake --build %s/_build >/dev/null 2>&1; ctest --test-dir %s/_build -j8 --timeout 900 2>&1 | tail -6" % (wt, wt))
failed = [l for l in o.splitlines() if "Failed" in l or "***" in l]
res["ctest_modified"] = "100% tests passed" in o or ("tests failed" in o and all("weak-test" in l for l in o.splitlines() if " - " in l and "Failed" not in l and "(" in l))
res["ctest_tail"] = o[-400:]
# 2. demo on modified and on stock
demo = meta.get("demo_cmd", "")
rc_mod, o_mod = sh("cd %s && timeout 300 bash -c %s" % (wt, __import__("shlex").quote(demo)), timeout=400)
stock_demo = demo.replace(wt + "/_build", "/repo/_build").replace(wt, "/repo") if demo else ""
# the demonstration file itself lives in the seed dir: keep that path
stock_demo = stock_demo.replace("/repo/" + os.path.basename(out), out)
rc_stock, o_stock = sh("cd /repo && timeout 300 bash -c %s" % __import__("shlex").quote(stock_demo), timeout=400)
if rc_stock != 0 and demo:
    # the demonstration has the worktree path baked in (a script): confirm "passes without the change" in the worktree itself
    pd = os.path.join(out, "patch.diff")
    sh("git -C %s apply -R %s && cmake --build %s/_build >/dev/null 2>&1" % (wt, pd, wt))
    rc_stock, o_stock = sh("cd %s && timeout 600 bash -c %s" % (wt, __import__("shlex").quote(demo)), timeout=700)
    sh("git -C %s apply %s && cmake --build %s/_build >/dev/null 2>&1" % (wt, pd, wt))
    res["demo_stock_in_worktree_reverse_applied"] = True
res["demo_modified_rc"] = rc_mod
res["demo_stock_rc"] = rc_stock
res["demo_modified_tail"] = o_mod[-300:]
res["demo_stock_tail"] = o_stock[-300:]
# 3. the checks
env = dict(os.environ)
bdir = "/tmp/seedbuild-" + os.path.basename(out)
env["VERIF_REPO"] = wt
env["VERIF_BUILD"] = bdir
res["checks"] = {}
if "--keep-checks" in sys.argv:
    res["checks"] = json.load(open(os.path.join(out, "eval.json")))["checks"]
for p in ([] if "--keep-checks" in sys.argv else [prop] + extra_props):
    t0 = time.time()
    cmd = "cd /verif && python3 verif.py check %s --tier %s %s" % (p, tier, ("--seconds " + seconds) if seconds else "")
    rc, o = sh(cmd, timeout=7200, env=env)
    lines = [l for l in o.splitlines() if l.startswith("VIOLATION") or l.startswith("  class=") or l.startswith("CHECK-BROKEN")]
    res["checks"][p] = {"exit": rc, "tier": tier, "wall_s": round(time.time() - t0, 1), "lines": [l[:400] for l in lines[:8]], "summary": o.splitlines()[-1][:400] if o else ""}
shutil.rmtree(bdir, ignore_errors=True)
print(json.dumps(res, indent=1))
json.dump(res, open(os.path.join(out, "eval.json"), "w"), indent=1)
