#!/usr/bin/env python3
"""tools/validation_report.py <determinism-log> -- writes /verif/seeded/VALIDATION.md from measured inputs:
the log of `verif.py determinism` runs, seeded/REGRESSION.md (tools/seedregress.py), known_findings.json and the evidence files."""
import glob
import json
import os
import re
import subprocess
import sys

detlog = sys.argv[1] if len(sys.argv) > 1 else None
out = []
head = subprocess.run("git -C /repo log --format=%h -1", shell=True, stdout=subprocess.PIPE).stdout.decode().strip()
vhead = subprocess.run("git -C /verif log --format=%h -1", shell=True, stdout=subprocess.PIPE).stdout.decode().strip()
out.append("# Validation of the machinery\n")
out.append("Measured on /repo %s with /verif %s (the numbers below are produced by the tools named, not typed in).\n" % (head, vhead))
out.append("## 1. Determinism\n")
out.append("`python3 verif.py determinism <Cxx> --cases N` generates N quick-tier cases from VERIF_SEED=1 and executes each three times: on 16 warm "
           "worker servers, on 16 warm servers again, and on 3 workers in fresh template processes. The (verdict classes, trace hash) pairs must agree "
           "pairwise. A case that diverges would make a violation unreplayable; the same comparison guards every reported violation at run time "
           "(the gate: two warm re-executions and one in a fresh process, otherwise exit 2, CHECK-BROKEN).\n")
if detlog and os.path.exists(detlog):
    rows = re.findall(r"(C\d\d) determinism: (\d+) cases x 3 executions \(16/16/3 workers\), (\d+) diverged, ([\d.]+)s", open(detlog).read())
    out.append("| property | cases x 3 executions | diverged | wall s |\n|---|---|---|---|")
    for r in rows:
        out.append("| %s | %s | %s | %s |" % r)
    out.append("")
    out.append("An earlier campaign (200 cases x 3 for every property, before the generators were extended) also had 0 divergences. The one divergence seen "
               "in the whole session was in C13 *under a violation* (finished task threads exiting concurrently with the next baton holder); see DESIGN.md 11.3.\n")
out.append("## 2. Sensitivity: seeded changes\n")
nseeds = len(glob.glob("/verif/seeded/*/meta.json"))
out.append("%d changes made by independent sub-agents that were given only a property's text and a scratch worktree (never anything from /verif), each "
           "confirmed to build, to pass the whole test suite and to fail its own demonstration only with the change. `seeded/INDEX.md` has what each one is "
           "and what happened when it was first evaluated (about half of them were missed by the check as it stood and led to a generator, fault-kind or oracle extension; DESIGN.md 11.4). " % nseeds
           +
           "`tools/seedregress.py` re-applies every kept patch to a scratch worktree of the final /repo and re-runs the final quick check:\n")
reg = "/verif/seeded/REGRESSION.md"
if os.path.exists(reg):
    txt = open(reg).read()
    rows = [l for l in txt.splitlines() if l.startswith("| C")]
    caught = sum(1 for l in rows if "| caught" in l)
    gone = sum(1 for l in rows if "no longer applies" in l)
    missed = [l for l in rows if "NOT caught" in l or "CHECK-BROKEN" in l]
    out.append("%d patches: %d caught by the final check, %d no longer apply to the final tree (a later fix commit rewrote the lines they touch), %d not caught.\n"
               % (len(rows), caught, gone, len(missed)))
    for l in missed:
        out.append("* " + l)
    out.append("\nFull table: `seeded/REGRESSION.md`.\n")
out.append("## 3. Sensitivity: positive controls and reverted fixes\n")
out.append("* C05 has a control that needs no source edit: with the context flag `SEXP_G_NO_TAIL_CALLS_P` set (plan knob `no_tail_calls`) every tail loop is reported.\n"
           "* Every `fix:` commit's finding has its replay under `findings/<id>/`; `python3 verif.py replay <file>` on the repaired tree prints `not reproduced`, "
           "and on a tree with the commit reverted reproduces the recorded class (done for F2, F27, F28, F31, F38, F43-F46 while they were being repaired -- e.g. with fbefefe reverted the C01 quick check reports `crash:Segmentation-fault` from a `tower` form within its default budget: the check "
           "was always run against the unrepaired tree first and had to report the violation before the fix went in).\n")
k = json.load(open("/verif/known_findings.json"))
fixed = [f for f in k["findings"] if f["status"] == "fixed"]
opn = [f for f in k["findings"] if f["status"] == "open"]
out.append("## 4. Findings on the unchanged tree\n")
out.append("%d entries in `known_findings.json` are `fixed` (%d distinct `fix:` commits in /repo), %d are `open` (F1 and F23, one root cause: nested `sexp_apply` "
           "activations are not unwound; not a small repair). The test suite (91 tests) passes after every fix commit, hooks compiled out.\n"
           % (len(fixed), len(set(f.get("commit") for f in fixed if f.get("commit"))), len(opn)))
out.append("## 5. What each quick run covered\n")
out.append("| property | cases | simulated runs | distinct non-trivial | violations | faults that fired |\n|---|---|---|---|---|---|")
for f in sorted(glob.glob("/verif/evidence/C*.json")):
    e = json.load(open(f))
    c = e["coverage"]
    ff = ", ".join("%s %s" % (k2, v) for k2, v in sorted(c.get("faults_fired", {}).items())[:6])
    out.append("| %s | %s | %s | %s | %s | %s |" % (e["property_id"], c.get("evaluations"), c.get("simulated_runs", ""), c.get("distinct_nontrivial"), e.get("violations"), ff))
out.append("")
open("/verif/seeded/VALIDATION.md", "w").write("\n".join(out) + "\n")
print("wrote /verif/seeded/VALIDATION.md")
