#!/usr/bin/env python3
"""Driver: setup | check <Cxx> [--tier quick|thorough] | replay <file> | determinism <Cxx>"""
import argparse
import importlib
import json
import os
import sys

sys.path.insert(0, os.path.dirname(os.path.abspath(__file__)))

from dst import build, engine  # noqa: E402


def load_prop(pid):
    return importlib.import_module("dst.props." + pid.lower())


def main():
    ap = argparse.ArgumentParser()
    sub = ap.add_subparsers(dest="cmd", required=True)
    sub.add_parser("setup")
    c = sub.add_parser("check")
    c.add_argument("prop")
    c.add_argument("--tier", default=os.environ.get("VERIF_TIER", "quick"))
    c.add_argument("--seconds", type=float, default=None)
    c.add_argument("--cases", type=int, default=None)
    r = sub.add_parser("replay")
    r.add_argument("path")
    d = sub.add_parser("determinism")
    d.add_argument("prop")
    d.add_argument("--cases", type=int, default=200)
    args = ap.parse_args()
    seed = int(os.environ.get("VERIF_SEED", "1"))
    if args.cmd == "setup":
        try:
            build.build_all(quiet=False)
        except build.BuildError as e:
            # the checks rebuild anyway and report a configuration that cannot be built in their own terms
            sys.stderr.write(e.output[-2000:])
            print("setup: %s (configuration %s); the checks will report it" % (e, getattr(e, "variant", "?")))
        return 0
    if args.cmd == "check":
        tier = args.tier if args.tier in ("quick", "thorough") else "quick"
        prop = load_prop(args.prop)
        chk = engine.Check(prop, tier, seed, budget_s=args.seconds, max_cases=args.cases)
        try:
            return chk.run()
        finally:
            chk.close()
    if args.cmd == "replay":
        with open(args.path) as f:
            pid = json.load(f)["property"]
        return engine.replay(load_prop(pid), args.path)
    if args.cmd == "determinism":
        from dst import selftest
        return selftest.determinism(load_prop(args.prop), seed, args.cases)
    return 0


if __name__ == "__main__":
    sys.exit(main())
